import FedjaxVerif.Lemmas.Stats
import FedjaxVerif.Lemmas.Metrics

/-!
# C14 — every built-in metric equals its definition on its whole domain

`Model/Metrics.lean` is the reference (written from the docstrings).  The theorems below are the
documented identities between those definitions, for all inputs: top-1 accuracy = accuracy, ties
go to the lowest class index, the stable-sort top-k is the rank definition, `k < 1 → 0`,
`k ≥ classes → 1`, confusion-matrix cells/total/trace, per-domain restriction, fully masked
sequences, token weights, per-position statistics sum to the sequence statistic.
-/

set_option linter.unnecessarySeqFocus false

namespace FedjaxVerif.Metrics
open FedjaxVerif.Stats

/-! ## the order on scores -/

namespace Score

theorem lt_irrefl (a : Score) : a.lt a = false := by cases a <;> simp [lt]

theorem lt_trans {a b c : Score} (h1 : a.lt b = true) (h2 : b.lt c = true) : a.lt c = true := by
  cases a <;> cases b <;> cases c <;> simp_all [lt] <;> omega

theorem lt_asymm {a b : Score} (h : a.lt b = true) : b.lt a = false := by
  cases a <;> cases b <;> simp_all [lt] <;> omega

theorem lt_trichotomy (a b : Score) : a.lt b = true ∨ a = b ∨ b.lt a = true := by
  cases a <;> cases b <;> simp [lt] <;> omega

end Score

/-- class `i` is considered before class `j`: larger score, or equal score and lower index -/
def before (s : List Score) (i j : Nat) : Prop :=
  (key s j).lt (key s i) = true ∨ (key s i = key s j ∧ i < j)

instance (s : List Score) (i j : Nat) : Decidable (before s i j) := by unfold before; infer_instance

theorem before_irrefl (s : List Score) (i : Nat) : ¬ before s i i := by
  rintro (h | ⟨_, h⟩)
  · rw [Score.lt_irrefl] at h; exact Bool.false_ne_true h
  · exact Nat.lt_irrefl _ h

theorem before_trans {s : List Score} {i j k : Nat} (h1 : before s i j) (h2 : before s j k) :
    before s i k := by
  rcases h1 with h1 | ⟨e1, l1⟩ <;> rcases h2 with h2 | ⟨e2, l2⟩
  · exact Or.inl (Score.lt_trans h2 h1)
  · left; rw [← e2]; exact h1
  · left; rw [e1]; exact h2
  · right; exact ⟨e1.trans e2, Nat.lt_trans l1 l2⟩

theorem before_asymm {s : List Score} {i j : Nat} (h1 : before s i j) : ¬ before s j i :=
  fun h2 => before_irrefl s i (before_trans h1 h2)

theorem before_total (s : List Score) {i j : Nat} (h : i ≠ j) : before s i j ∨ before s j i := by
  rcases Score.lt_trichotomy (key s i) (key s j) with h1 | h1 | h1
  · exact Or.inr (Or.inl h1)
  · rcases Nat.lt_or_gt_of_ne h with h2 | h2
    · exact Or.inl (Or.inr ⟨h1, h2⟩)
    · exact Or.inr (Or.inr ⟨h1.symm, h2⟩)
  · exact Or.inl (Or.inl h1)

/-! ## argmax -/

theorem key_of_drop {s : List Score} {i : Nat} {x : Score} {xs : List Score}
    (h : s.drop i = x :: xs) : i < s.length ∧ key s i = x ∧ s.drop (i + 1) = xs := by
  have hi : i < s.length := by
    by_contra hc
    rw [List.drop_of_length_le (by omega)] at h
    cases h
  refine ⟨hi, ?_, ?_⟩
  · have := List.getElem_cons_drop (as := s) (i := i) hi
    rw [h] at this
    simp only [key, List.getD_eq_getElem?_getD, List.getElem?_eq_getElem hi, Option.getD_some]
    exact (List.cons.inj this).1
  · have := List.getElem_cons_drop (as := s) (i := i) hi
    rw [h] at this
    exact (List.cons.inj this).2

theorem argmaxGo_spec (s : List Score) :
    ∀ (xs : List Score) (best : Score) (bi i : Nat), s.drop i = xs → bi < i → i ≤ s.length →
      best = key s bi → (∀ p < i, (best.lt (key s p)) = false) →
      (∀ p < bi, (key s p).lt best = true) →
      argmaxGo xs best bi i < s.length ∧
      (∀ p < s.length, (key s (argmaxGo xs best bi i)).lt (key s p) = false) ∧
      (∀ p < argmaxGo xs best bi i, (key s p).lt (key s (argmaxGo xs best bi i)) = true) := by
  intro xs
  induction xs with
  | nil =>
    intro best bi i hd hbi hi hbest hmax hfirst
    have : s.length ≤ i := by
      by_contra hc
      have := List.drop_eq_nil_iff.mp hd
      omega
    have hi' : i = s.length := by omega
    simp only [argmaxGo]
    subst hbest
    exact ⟨by omega, fun p hp => hmax p (by omega), hfirst⟩
  | cons x xs ih =>
    intro best bi i hd hbi hi hbest hmax hfirst
    obtain ⟨hil, hkx, hd'⟩ := key_of_drop hd
    simp only [argmaxGo]
    by_cases hlt : best.lt x = true
    · rw [if_pos hlt]
      apply ih x i (i + 1) hd' (by omega) (by omega) hkx.symm
      · intro p hp
        rcases Nat.lt_succ_iff_lt_or_eq.mp hp with hp | rfl
        · have h1 := hmax p hp
          cases h2 : x.lt (key s p)
          · rfl
          · rw [Score.lt_trans hlt h2] at h1; cases h1
        · rw [hkx]; exact Score.lt_irrefl x
      · intro p hp
        have h1 := hmax p hp
        rcases Score.lt_trichotomy (key s p) best with h2 | h2 | h2
        · exact Score.lt_trans h2 hlt
        · rw [h2]; exact hlt
        · rw [h2] at h1; cases h1
    · rw [if_neg hlt]
      apply ih best bi (i + 1) hd' (by omega) (by omega) hbest
      · intro p hp
        rcases Nat.lt_succ_iff_lt_or_eq.mp hp with hp | rfl
        · exact hmax p hp
        · rw [hkx]; simpa using hlt
      · exact hfirst

/-- **Ties are broken toward the lowest class index**: `argmaxFirst` is a valid class, no class
has a strictly larger score, and every class before it has a strictly smaller score. -/
theorem C14_tie_lowest_index (s : List Score) (hs : s ≠ []) :
    argmaxFirst s < s.length ∧
    (∀ p < s.length, (key s (argmaxFirst s)).lt (key s p) = false) ∧
    (∀ p < argmaxFirst s, (key s p).lt (key s (argmaxFirst s)) = true) := by
  cases s with
  | nil => exact absurd rfl hs
  | cons x xs =>
    simp only [argmaxFirst]
    apply argmaxGo_spec (x :: xs) xs x 0 1 rfl (by omega) (by simp) (by simp [key])
    · intro p hp
      have : p = 0 := by omega
      subst this
      simpa [key] using Score.lt_irrefl x
    · intro p hp; omega

/-- no class is considered before the argmax, and it is the only such class -/
theorem argmax_unique (s : List Score) (hs : s ≠ []) (j : Nat) :
    (j < s.length ∧ ∀ i < s.length, ¬ before s i j) ↔ j = argmaxFirst s := by
  obtain ⟨h1, h2, h3⟩ := C14_tie_lowest_index s hs
  constructor
  · rintro ⟨hj, hnb⟩
    by_contra hne
    rcases before_total s hne with hb | hb
    · -- j before argmax: contradicts the argmax properties
      rcases hb with hb | ⟨he, hl⟩
      · rw [h2 j hj] at hb; cases hb
      · have := h3 j hl
        rw [he, Score.lt_irrefl] at this; cases this
    · exact hnb _ h1 hb
  · rintro rfl
    refine ⟨h1, ?_⟩
    intro i hi hb
    rcases hb with hb | ⟨he, hl⟩
    · rw [h2 i hi] at hb; cases hb
    · have := h3 i hl
      rw [he, Score.lt_irrefl] at this; cases this

/-! ## top-k: the stable sort is the rank definition -/

theorem insertDesc_spec (s : List Score) (i : Nat) :
    ∀ L : List Nat, (∀ j ∈ L, i < j) → L.Pairwise (before s) →
      (insertDesc s i L).Pairwise (before s) ∧ (insertDesc s i L).Perm (i :: L) := by
  intro L
  induction L with
  | nil => intro _ _; simp [insertDesc]
  | cons j js ih =>
    intro hgt hp
    have hij : i < j := hgt j (List.mem_cons_self ..)
    have hgt' : ∀ y ∈ js, i < y := fun y hy => hgt y (List.mem_cons_of_mem _ hy)
    obtain ⟨hjs, hpj⟩ := List.pairwise_cons.mp hp
    simp only [insertDesc]
    by_cases hlt : (key s i).lt (key s j) = true
    · rw [if_pos hlt]
      obtain ⟨ih1, ih2⟩ := ih hgt' hpj
      refine ⟨List.pairwise_cons.mpr ⟨?_, ih1⟩, ?_⟩
      · intro y hy
        rcases List.mem_cons.mp (ih2.mem_iff.mp hy) with rfl | hy
        · exact Or.inl hlt
        · exact hjs y hy
      · exact ((List.Perm.cons j ih2).trans (List.Perm.swap i j js))
    · rw [if_neg hlt]
      have hbij : before s i j := by
        rcases Score.lt_trichotomy (key s i) (key s j) with h | h | h
        · exact absurd h hlt
        · exact Or.inr ⟨h, hij⟩
        · exact Or.inl h
      refine ⟨List.pairwise_cons.mpr ⟨?_, hp⟩, List.Perm.refl _⟩
      intro y hy
      rcases List.mem_cons.mp hy with rfl | hy
      · exact hbij
      · exact before_trans hbij (hjs y hy)

theorem sortOf_spec (s : List Score) :
    ∀ l : List Nat, l.Pairwise (· < ·) →
      (l.foldr (insertDesc s) []).Pairwise (before s) ∧ (l.foldr (insertDesc s) []).Perm l := by
  intro l
  induction l with
  | nil => intro _; simp
  | cons i l ih =>
    intro hp
    obtain ⟨hil, hl⟩ := List.pairwise_cons.mp hp
    obtain ⟨ih1, ih2⟩ := ih hl
    have hgt : ∀ j ∈ l.foldr (insertDesc s) [], i < j := fun j hj => hil j (ih2.mem_iff.mp hj)
    obtain ⟨h1, h2⟩ := insertDesc_spec s i _ hgt ih1
    exact ⟨h1, h2.trans (List.Perm.cons i ih2)⟩

theorem argsortDesc_sorted (s : List Score) : (argsortDesc s).Pairwise (before s) :=
  (sortOf_spec s _ List.pairwise_lt_range).1

theorem argsortDesc_perm (s : List Score) : (argsortDesc s).Perm (List.range s.length) :=
  (sortOf_spec s _ List.pairwise_lt_range).2

/-- position in a list sorted by a strict order = number of elements that come before -/
theorem mem_take_sorted (s : List Score) :
    ∀ (L : List Nat) (k x : Nat), L.Pairwise (before s) → x ∈ L →
      (x ∈ L.take k ↔ L.countP (fun i => decide (before s i x)) < k) := by
  intro L
  induction L with
  | nil => intro k x _ hx; cases hx
  | cons a L ih =>
    intro k x hp hx
    obtain ⟨ha, hL⟩ := List.pairwise_cons.mp hp
    cases k with
    | zero => simp
    | succ k =>
      rw [List.take_succ_cons, List.countP_cons]
      by_cases hxa : x = a
      · subst hxa
        have h0 : L.countP (fun i => decide (before s i x)) = 0 := by
          rw [List.countP_eq_zero]
          intro y hy
          simpa using before_asymm (ha y hy)
        simp [h0, before_irrefl]
      · have hxL : x ∈ L := by
          rcases List.mem_cons.mp hx with h | h
          · exact absurd h hxa
          · exact h
        have hb : before s a x := ha x hxL
        rw [List.mem_cons, ih k x hL hxL]
        simp only [hb, decide_true, if_true]
        constructor
        · rintro (h | h)
          · exact absurd h hxa
          · omega
        · intro h; right; omega

theorem rank_eq_countP (s : List Score) (j : Nat) :
    rank s j = (List.range s.length).countP (fun i => decide (before s i j)) := by
  unfold rank
  rw [List.countP_eq_length_filter]
  congr 1
  apply List.filter_congr
  intro i _
  rw [Bool.eq_iff_iff]
  simp only [Bool.or_eq_true, Bool.and_eq_true, beq_iff_eq, decide_eq_true_eq]
  exact Iff.rfl

/-- **The stable argsort the code uses is the documented rank**: class `t` is among the first
`k` classes iff it is a class and fewer than `k` classes are considered before it. -/
theorem C14_topk_rank (s : List Score) (k : Int) (t : Nat) :
    t ∈ topK k s ↔ t < s.length ∧ rank s t < k.toNat := by
  unfold topK
  by_cases ht : t < s.length
  · have hmem : t ∈ argsortDesc s := (argsortDesc_perm s).mem_iff.mpr (List.mem_range.mpr ht)
    rw [mem_take_sorted s _ _ _ (argsortDesc_sorted s) hmem, rank_eq_countP,
      (argsortDesc_perm s).countP_eq]
    simp [ht]
  · constructor
    · intro h
      have := (argsortDesc_perm s).mem_iff.mp (List.mem_of_mem_take h)
      exact absurd (List.mem_range.mp this) ht
    · intro h; exact absurd h.1 ht

theorem inTopK_iff (s : List Score) (k : Int) (t : Int) :
    inTopK k s t = true ↔ ∃ j : Nat, (j : Int) = t ∧ j < s.length ∧ rank s j < k.toNat := by
  simp only [inTopK, List.any_eq_true, beq_iff_eq]
  constructor
  · rintro ⟨j, hj, rfl⟩
    exact ⟨j, rfl, (C14_topk_rank s k j).mp hj⟩
  · rintro ⟨j, rfl, hj⟩
    exact ⟨j, (C14_topk_rank s k j).mpr hj, rfl⟩

theorem rank_lt_length (s : List Score) {t : Nat} (ht : t < s.length) : rank s t < s.length := by
  rw [rank_eq_countP]
  have h1 : (List.range s.length).countP (fun i => decide (before s i t))
      < (List.range s.length).length := by
    apply lt_of_le_of_ne List.countP_le_length
    intro h
    have := (List.countP_eq_length.mp h) t (List.mem_range.mpr ht)
    exact before_irrefl s t (by simpa using this)
  simpa using h1

/-- **`k < 1` gives 0, `k ≥ num_classes` gives 1** (for targets in range). -/
theorem C14_topk_bounds (s : List Score) (k : Int) (t : Int) :
    (k < 1 → correctTopK k t s = 0) ∧
    (s.length ≤ k → 0 ≤ t → t < s.length → correctTopK k t s = 1) := by
  constructor
  · intro hk
    have : inTopK k s t = false := by
      rw [Bool.eq_false_iff]
      intro h
      obtain ⟨j, _, _, hr⟩ := (inTopK_iff s k t).mp h
      have : k.toNat = 0 := by omega
      omega
    simp [correctTopK, ind, this]
  · intro hk h0 ht
    have : inTopK k s t = true := by
      rw [inTopK_iff]
      refine ⟨t.toNat, by omega, by omega, ?_⟩
      have := rank_lt_length s (t := t.toNat) (by omega)
      omega
    simp [correctTopK, ind, this]

/-- the class of rank 0 is the argmax -/
theorem rank_zero_iff (s : List Score) (hs : s ≠ []) (j : Nat) (hj : j < s.length) :
    rank s j = 0 ↔ j = argmaxFirst s := by
  rw [← argmax_unique s hs j, rank_eq_countP, List.countP_eq_zero]
  constructor
  · intro h
    exact ⟨hj, fun i hi hb => by simpa [hb] using h i (List.mem_range.mpr hi)⟩
  · rintro ⟨_, h⟩ i hi
    simpa using h i (List.mem_range.mp hi)

/-- **Top-1 accuracy equals accuracy**, per score vector … -/
theorem correctTopK_one (s : List Score) (hs : s ≠ []) (t : Int) :
    correctTopK 1 t s = correctTop1 t s := by
  have key : inTopK 1 s t = ((argmaxFirst s : Int) == t) := by
    rw [Bool.eq_iff_iff, inTopK_iff, beq_iff_eq]
    constructor
    · rintro ⟨j, rfl, hj, hr⟩
      have : rank s j = 0 := by
        have : (1 : Int).toNat = 1 := rfl
        omega
      rw [(rank_zero_iff s hs j hj).mp this]
    · intro h
      have hlt := (C14_tie_lowest_index s hs).1
      refine ⟨argmaxFirst s, h, hlt, ?_⟩
      rw [(rank_zero_iff s hs _ hlt).mpr rfl]
      decide
  simp [correctTopK, correctTop1, key]

/-- … and per metric: `TopKAccuracy(k=1)` = `Accuracy`, `SequenceTokenTopKAccuracy(k=1, …)` =
`SequenceTokenAccuracy(…)` (same masked values, logits mask and `per_position`), whenever every
position has at least one class. -/
theorem C14_top1_eq_accuracy (e : Ex) :
    (e.scores0 ≠ [] → (MeanMetric.topK 1).eval e = MeanMetric.accuracy.eval e) ∧
    (∀ masked lm pp, (∀ sc ∈ e.scores, applyMask sc lm ≠ []) →
      (MeanMetric.seqTokenTopK 1 masked lm pp).eval e = (MeanMetric.seqTokenAcc masked lm pp).eval e) := by
  constructor
  · intro h
    simp only [MeanMetric.eval]
    rw [correctTopK_one _ (by simpa using h)]
  · intro masked lm pp h
    simp only [MeanMetric.eval]
    congr 1
    apply List.ext_getElem
    · simp
    · intro i h1 h2
      simp only [List.getElem_zipWith]
      apply correctTopK_one
      apply h
      exact List.getElem_mem _

/-! ## flattened block statistics -/

theorem length_flatMap_blocks {α : Type} (f : Nat → List α) (m : Nat) (hf : ∀ r, (f r).length = m)
    (n : Nat) : ((List.range n).flatMap f).length = n * m := by
  induction n with
  | zero => simp
  | succ n ih =>
    rw [List.range_succ, List.flatMap_append, List.length_append, ih]
    simp [hf, Nat.succ_mul]

theorem getD_flatMap_blocks {α : Type} (f : Nat → List α) (m : Nat) (hf : ∀ r, (f r).length = m) (z : α) :
    ∀ (n r c : Nat), r < n → c < m →
      ((List.range n).flatMap f).getD (r * m + c) z = (f r).getD c z := by
  intro n
  induction n with
  | zero => intro r c hr; omega
  | succ n ih =>
    intro r c hr hc
    rw [List.range_succ, List.flatMap_append]
    simp only [List.flatMap_cons, List.flatMap_nil, List.append_nil]
    have hlen := length_flatMap_blocks f m hf n
    rcases Nat.lt_succ_iff_lt_or_eq.mp hr with hr | rfl
    · have h1 : (r + 1) * m ≤ n * m := Nat.mul_le_mul_right m hr
      have hlt : r * m + c < ((List.range n).flatMap f).length := by
        rw [hlen, Nat.succ_mul] at *; omega
      have := ih r c hr hc
      rw [List.getD_eq_getElem?_getD] at this ⊢
      rw [List.getElem?_append_left hlt, this]
    · rw [List.getD_eq_getElem?_getD, List.getElem?_append_right (by rw [hlen]; omega), hlen,
        Nat.add_sub_cancel_left, ← List.getD_eq_getElem?_getD]

theorem block_index_lt {D m d i : Nat} (hd : d < D) (hi : i < m) : d * m + i < D * m := by
  have h1 : (d + 1) * m ≤ D * m := Nat.mul_le_mul_right m hd
  rw [Nat.succ_mul] at h1
  omega

theorem getD_perDomainV {σ : Type} (z : σ) (D : Nat) (dom : Int) (v : List σ) (d i : Nat)
    (hd : d < D) (hi : i < v.length) :
    (perDomainV z D dom v).getD (d * v.length + i) z = if (d : Int) = dom then v.getD i z else z := by
  unfold perDomainV
  rw [getD_flatMap_blocks _ v.length (by intro r; split <;> simp) z D d i hd hi]
  split
  · rfl
  · simp [List.getD_eq_getElem?_getD, hi]

/-- entry `i` of the reduced statistic is the reduction of the entries `i` -/
theorem getD_vec_reduce {σ : Type} (o : StatOps σ) (n : Nat) (l : List (List σ)) (i : Nat) (hi : i < n) :
    ((vecOps n o).reduce l).getD i o.zero = o.reduce (l.map fun v => v.getD i o.zero) := by
  show ((List.range n).map fun i => o.reduce (l.map fun v => v.getD i o.zero)).getD i o.zero = _
  rw [getD_map_range _ _ hi]

/-! ## per-domain statistics -/

theorem filter_map_eq_filterMap {α β : Type} (l : List α) (p : α → Bool) (g : α → β) :
    (l.filter p).map g = (l.map fun e => (g e, p e)).filterMap fun q => if q.2 then some q.1 else none := by
  induction l with
  | nil => rfl
  | cons a l ih =>
    simp only [List.filter_cons, List.map_cons, List.filterMap_cons]
    cases h : p a <;> simp [ih]

/-- generic form: for any lawful statistic, block `d` of the reduced per-domain statistic is the
reduced base statistic of the examples of domain `d` -/
theorem perDomain_reduce {σ : Type} {o : StatOps σ} {V : σ → Prop} (h : Lawful o V)
    (f : Ex → List σ) (m D : Nat) (exs : List Ex) (hf : ∀ e ∈ exs, VecValid m V (f e))
    (d i : Nat) (hd : d < D) (hi : i < m) :
    ((vecOps (D * m) o).reduce (exs.map fun e => perDomainV o.zero D e.domain (f e))).getD (d * m + i) o.zero
      = ((vecOps m o).reduce ((exs.filter fun e => (d : Int) = e.domain).map f)).getD i o.zero := by
  rw [getD_vec_reduce o _ _ _ (block_index_lt hd hi), getD_vec_reduce o _ _ _ hi]
  simp only [List.map_map]
  have hl : (exs.map ((fun v => v.getD (d * m + i) o.zero) ∘ fun e => perDomainV o.zero D e.domain (f e)))
      = (exs.map fun e => ((f e).getD i o.zero, decide ((d : Int) = e.domain))).map
          fun q => if q.2 then q.1 else o.zero := by
    rw [List.map_map]
    apply List.map_congr_left
    intro e he
    have hlen := (hf e he).1
    simp only [Function.comp]
    have := getD_perDomainV o.zero D e.domain (f e) d i hd (by omega)
    rw [hlen] at this
    rw [this]
    by_cases hde : (d : Int) = e.domain <;> simp [hde]
  have hr : ((exs.filter fun e => decide ((d : Int) = e.domain)).map ((fun v => v.getD i o.zero) ∘ f))
      = (exs.map fun e => ((f e).getD i o.zero, decide ((d : Int) = e.domain))).filterMap
          fun q => if q.2 then some q.1 else none :=
    filter_map_eq_filterMap exs _ _
  have hval : ∀ q ∈ exs.map (fun e => ((f e).getD i o.zero, decide ((d : Int) = e.domain))), V q.1 := by
    intro q hq
    obtain ⟨e, he, rfl⟩ := List.mem_map.mp hq
    exact getD_valid h (hf e he).2 i
  rw [hl, hr, h.reduce_eq_mergeAll, h.reduce_eq_mergeAll, h.mergeAll_filter_zero h.zero_valid _ hval]
  · intro x hx
    obtain ⟨q, hq, hx⟩ := List.mem_filterMap.mp hx
    by_cases hb : q.2
    · simp only [hb, if_true, Option.some.injEq] at hx
      rw [← hx]; exact hval q hq
    · simp [hb] at hx
  · intro x hx
    obtain ⟨q, hq, rfl⟩ := List.mem_map.mp hx
    by_cases hb : q.2
    · simpa [hb] using hval q hq
    · simpa [hb] using h.zero_valid

/-- **Per-domain statistics restricted to a domain equal the base metric on that domain's
examples** (mean-valued bases, incl. per-position ones; any list of examples, i.e. after
`evaluate_batch`/`evaluate_model`). -/
theorem C14_per_domain_mean (base : MeanMetric) (D len : Nat) (exs : List Ex)
    (hshape : ∀ e ∈ exs, e.WellShaped len) (d i : Nat) (hd : d < D) (hi : i < base.size len) :
    ((vecOps ((MeanMetric.perDomain base D).size len) meanOps).reduce
        (exs.map (MeanMetric.perDomain base D).eval)).getD (d * base.size len + i) MeanStat.zero
      = ((vecOps (base.size len) meanOps).reduce
          ((exs.filter fun e => (d : Int) = e.domain).map base.eval)).getD i MeanStat.zero :=
  perDomain_reduce meanLawful base.eval (base.size len) D exs
    (fun e he => base.eval_vecValid len e (hshape e he)) d i hd hi

/-- the same for sum-valued bases (counts, confusion matrix) -/
theorem C14_per_domain_sum (base : SumMetric) (D : Nat) (exs : List Ex)
    (d i : Nat) (hd : d < D) (hi : i < base.size) :
    ((vecOps (SumMetric.perDomain base D).size sumOps).reduce
        (exs.map (SumMetric.perDomain base D).eval)).getD (d * base.size + i) SumStat.zero
      = ((vecOps base.size sumOps).reduce
          ((exs.filter fun e => (d : Int) = e.domain).map base.eval)).getD i SumStat.zero :=
  perDomain_reduce sumLawful base.eval base.size D exs (fun e _ => base.eval_vecValid e) d i hd hi

/-- single example: block `d` is the base statistic if `d` is the example's domain, else zero -/
theorem C14_per_domain_example (base : MeanMetric) (D : Nat) (e : Ex) (d i : Nat)
    (hd : d < D) (hi : i < (base.eval e).length) :
    ((MeanMetric.perDomain base D).eval e).getD (d * (base.eval e).length + i) MeanStat.zero
      = if (d : Int) = e.domain then (base.eval e).getD i MeanStat.zero else MeanStat.zero :=
  getD_perDomainV MeanStat.zero D e.domain (base.eval e) d i hd hi

/-! ## confusion matrix -/

/-- the class predicted for an example -/
def predicted (e : Ex) : Nat := argmaxFirst (e.scores0.map Score.fin)

/-- number of examples with target `r` predicted as `c` -/
def cell (exs : List Ex) (r c : Nat) : Nat :=
  exs.countP fun e => (r : Int) == e.target && c == predicted e

/-- number of correctly predicted examples -/
def numCorrect (exs : List Ex) : Nat := exs.countP fun e => (predicted e : Int) == e.target

theorem sum_ind_countP {α : Type} (l : List α) (p : α → Bool) :
    (l.map fun e => ind (p e)).sum = (l.countP p : Rat) := by
  induction l with
  | nil => simp
  | cons a l ih =>
    rw [List.map_cons, List.sum_cons, ih, List.countP_cons]
    cases p a <;> simp [ind]
    ring

theorem getD_confusion (c : Nat) (e : Ex) (r col : Nat) (hr : r < c) (hc : col < c) :
    ((SumMetric.confusion c).eval e).getD (r * c + col) SumStat.zero
      = SumStat.new (ind ((r : Int) == e.target && col == predicted e)) := by
  simp only [SumMetric.eval]
  rw [getD_flatMap_blocks _ c (by intro r; simp) _ c r col hr hc]
  simp [List.getD_eq_getElem?_getD, hc, predicted]

/-- **One count per example at (target, predicted)**: cell `(r, c)` of the summed matrix is the
number of examples with target `r` whose prediction (argmax, ties → lowest index) is `c`. -/
theorem C14_confusion_cell (c : Nat) (exs : List Ex) (r col : Nat) (hr : r < c) (hc : col < c) :
    ((vecOps (SumMetric.confusion c).size sumOps).reduce
        (exs.map (SumMetric.confusion c).eval)).getD (r * c + col) SumStat.zero
      = ⟨(cell exs r col : Rat)⟩ := by
  show ((vecOps (c * c) sumOps).reduce _).getD _ sumOps.zero = _
  rw [getD_vec_reduce sumOps _ _ _ (block_index_lt hr hc), List.map_map]
  show SumStat.reduce _ = _
  simp only [SumStat.reduce, SumStat.new, List.map_map]
  congr 1
  rw [cell, ← sum_ind_countP]
  congr 1
  apply List.map_congr_left
  intro e _
  simp only [Function.comp]
  have := getD_confusion c e r col hr hc
  simp only [show sumOps.zero = SumStat.zero from rfl, this, SumStat.new]

theorem sum_map_add_nat {α : Type} (l : List α) (f g : α → Nat) :
    (l.map fun r => f r + g r).sum = (l.map f).sum + (l.map g).sum := by
  induction l with
  | nil => simp
  | cons a l ih => simp only [List.map_cons, List.sum_cons, ih]; omega

theorem sum_map_zero {α : Type} (l : List α) : (l.map fun _ => (0 : Nat)).sum = 0 := by
  induction l with
  | nil => rfl
  | cons a l ih => simp [ih]

theorem sum_weight_one {α : Type} (l : List α) (g : α → Rat) :
    ((l.map fun e => (⟨g e, 1⟩ : MeanStat)).map (·.weight)).sum = (l.length : Rat) := by
  induction l with
  | nil => simp
  | cons a l ih =>
    simp only [List.map_cons, List.sum_cons, List.length_cons, ih]
    push_cast; ring

theorem sum_delta (n t : Nat) (v : Nat) :
    ((List.range n).map fun r => if r = t then v else 0).sum = if t < n then v else 0 := by
  induction n with
  | zero => simp
  | succ n ih =>
    rw [List.range_succ, List.map_append, List.sum_append, ih]
    simp only [List.map_cons, List.map_nil, List.sum_cons, List.sum_nil]
    split_ifs <;> omega

theorem beq_target_iff (r : Nat) (t : Int) (ht : 0 ≤ t) : ((r : Int) == t) = decide (r = t.toNat) := by
  rw [Bool.eq_iff_iff]
  simp only [beq_iff_eq, decide_eq_true_eq]
  omega

/-- **Total = number of examples, trace = number of correct predictions**, hence
`trace / total` is the accuracy: the reduced `Accuracy` statistic of the same examples is
`(numCorrect, length)`. -/
theorem C14_confusion_trace (c : Nat) (exs : List Ex)
    (h : ∀ e ∈ exs, 0 ≤ e.target ∧ e.target < c ∧ e.scores0.length = c) :
    ((List.range c).map fun r => ((List.range c).map fun col => cell exs r col).sum).sum = exs.length ∧
    ((List.range c).map fun r => cell exs r r).sum = numCorrect exs ∧
    (vecOps 1 meanOps).reduce (exs.map MeanMetric.accuracy.eval)
      = [⟨(numCorrect exs : Rat), (exs.length : Rat)⟩] := by
  refine ⟨?_, ?_, ?_⟩
  · induction exs with
    | nil => simp [cell, sum_map_zero]
    | cons e l ih =>
      obtain ⟨h0, h1, h2⟩ := h e (List.mem_cons_self ..)
      have ih := ih fun e' he' => h e' (List.mem_cons_of_mem _ he')
      have hp : predicted e < c := by
        have hne : e.scores0.map Score.fin ≠ [] := by
          intro hnil
          have := congrArg List.length hnil
          simp only [List.length_map, List.length_nil] at this
          omega
        have := (C14_tie_lowest_index _ hne).1
        simpa [predicted, h2] using this
      have hcell : ∀ r col, cell (e :: l) r col
          = cell l r col + (if r = e.target.toNat then (if col = predicted e then 1 else 0) else 0) := by
        intro r col
        simp only [cell, List.countP_cons, beq_target_iff r _ h0]
        by_cases hr : r = e.target.toNat <;> by_cases hc : col = predicted e <;> simp [hr, hc]
      simp only [hcell, sum_map_add_nat, ih, List.length_cons]
      congr 1
      have : ∀ r, ((List.range c).map fun col =>
          if r = e.target.toNat then (if col = predicted e then 1 else 0) else 0).sum
          = if r = e.target.toNat then 1 else 0 := by
        intro r
        by_cases hr : r = e.target.toNat
        · simp only [hr, if_true]
          rw [sum_delta c (predicted e) 1, if_pos hp]
        · simp [hr, sum_map_zero]
      simp only [this]
      rw [sum_delta c e.target.toNat 1, if_pos (by omega)]
  · induction exs with
    | nil => simp [cell, numCorrect, sum_map_zero]
    | cons e l ih =>
      obtain ⟨h0, h1, _⟩ := h e (List.mem_cons_self ..)
      have ih := ih fun e' he' => h e' (List.mem_cons_of_mem _ he')
      have hcell : ∀ r, cell (e :: l) r r
          = cell l r r + (if r = e.target.toNat then (if (predicted e : Int) = e.target then 1 else 0) else 0) := by
        intro r
        simp only [cell, List.countP_cons, beq_target_iff r _ h0]
        by_cases hr : r = e.target.toNat
        · subst hr
          by_cases hc : (predicted e : Int) = e.target
          · have : e.target.toNat = predicted e := by omega
            simp [hc, this]
          · have : ¬ e.target.toNat = predicted e := by omega
            simp [hc, this]
        · simp [hr]
      simp only [hcell, sum_map_add_nat, ih, numCorrect, List.countP_cons]
      congr 1
      rw [sum_delta c e.target.toNat _, if_pos (by omega)]
      by_cases hc : (predicted e : Int) = e.target <;> simp [hc]
  · show (List.range 1).map (fun i => MeanStat.reduce ((exs.map MeanMetric.accuracy.eval).map
        fun v => v.getD i MeanStat.zero)) = _
    simp only [List.range_one, List.map_cons, List.map_nil, List.map_map]
    congr 1
    have hl : (exs.map ((fun v => v.getD 0 MeanStat.zero) ∘ MeanMetric.accuracy.eval))
        = exs.map fun e => (⟨ind ((predicted e : Int) == e.target), 1⟩ : MeanStat) := by
      apply List.map_congr_left
      intro e _
      simp only [Function.comp, MeanMetric.eval, List.getD_cons_zero, correctTop1, predicted]
      exact MeanStat.new_of_pos (by norm_num)
    rw [hl]
    have hsum1 : ((exs.map fun e => (⟨ind ((predicted e : Int) == e.target), 1⟩ : MeanStat)).map (·.accum)).sum
        = (numCorrect exs : Rat) := by
      rw [List.map_map, numCorrect, ← sum_ind_countP]; rfl
    have hsum2 := sum_weight_one exs fun e => ind ((predicted e : Int) == e.target)
    simp only [MeanStat.reduce, hsum1, hsum2]
    cases exs with
    | nil => simpa [numCorrect] using MeanStat.new_of_nonpos (a := 0) (w := 0) (le_refl 0)
    | cons a l => exact MeanStat.new_of_pos (by simp only [List.length_cons]; positivity)

/-! ## masked targets -/

/-- `masked_target_values` of the sequence metrics -/
def MeanMetric.maskedValues? : MeanMetric → Option (List Int)
  | .seqTokenCE m _ => some m
  | .seqCE m => some m
  | .seqTokenAcc m _ _ => some m
  | .seqTokenTopK _ m _ _ => some m
  | .seqTruncRate _ m => some m
  | .seqOOVRate _ m _ => some m
  | .seqLength m => some m
  | _ => none

/-- number of non-masked tokens -/
def numTokens (masked : List Int) (ts : List Int) : Nat := ts.countP fun t => !masked.contains t

theorem weights_sum (masked : List Int) (ts : List Int) :
    (weights masked ts).sum = (numTokens masked ts : Rat) := by
  simp only [weights, numTokens]
  exact sum_ind_countP ts _

theorem weights_nonneg (masked : List Int) (ts : List Int) : ∀ w ∈ weights masked ts, (0 : Rat) ≤ w := by
  intro w hw
  obtain ⟨t, _, rfl⟩ := List.mem_map.mp hw
  simp only [targetWeight, ind]
  split <;> norm_num

theorem anyWeight_eq (masked : List Int) (ts : List Int) :
    anyWeight (weights masked ts) = ind (decide (0 < numTokens masked ts)) := by
  simp only [anyWeight, weights, List.any_map]
  congr 1
  rw [Bool.eq_iff_iff, List.any_eq_true, decide_eq_true_eq]
  unfold numTokens
  rw [List.countP_pos_iff]
  have hpt : ∀ t, ((fun w : Rat => w != 0) ∘ targetWeight masked) t = !masked.contains t := by
    intro t
    cases hc : masked.contains t
    · have : t ∉ masked := by simpa using hc
      simp [Function.comp, targetWeight, ind, this]
    · have : t ∈ masked := by simpa using hc
      simp [Function.comp, targetWeight, ind, this]
  simp only [hpt]

theorem numTokens_zero {masked ts : List Int} (h : ∀ t ∈ ts, t ∈ masked) : numTokens masked ts = 0 := by
  rw [numTokens, List.countP_eq_zero]
  intro t ht
  simpa using h t ht

theorem weights_zero {masked ts : List Int} (h : ∀ t ∈ ts, t ∈ masked) :
    ∀ w ∈ weights masked ts, w = 0 := by
  intro w hw
  obtain ⟨t, ht, rfl⟩ := List.mem_map.mp hw
  simp [targetWeight, ind, h t ht]

theorem new_zero_weight (a : Rat) : MeanStat.new a 0 = MeanStat.zero := by
  rw [MeanStat.new_of_nonpos (le_refl 0), MeanStat.zero_eq]

theorem tokenStat_zero (pp : Bool) (vals ws : List Rat) (hw : ∀ w ∈ ws, w = 0) (hs : ws.sum = 0) :
    ∀ s ∈ tokenStat pp vals ws, s = MeanStat.zero := by
  intro s hs'
  unfold tokenStat at hs'
  split at hs'
  · obtain ⟨i, hi, rfl⟩ := List.mem_iff_getElem.mp hs'
    simp only [List.getElem_zipWith]
    simp only [List.length_zipWith] at hi
    rw [hw _ (List.getElem_mem (by omega))]
    exact new_zero_weight _
  · rw [List.mem_singleton.mp hs', hs]
    exact new_zero_weight _

/-- **A sequence whose targets are all masked yields `zero`** in every entry of every sequence
metric (and count 0 for the two counting metrics) — whatever the predictions are. -/
theorem C14_fully_masked (masked : List Int) (e : Ex) (hall : ∀ t ∈ e.targets, t ∈ masked) :
    (∀ m : MeanMetric, m.maskedValues? = some masked → ∀ s ∈ m.eval e, s = MeanStat.zero) ∧
    (SumMetric.seqTokenCount masked).eval e = [SumStat.zero] ∧
    (SumMetric.seqCount masked).eval e = [SumStat.zero] := by
  have hn := numTokens_zero hall
  have hw := weights_zero hall
  have hsum : (weights masked e.targets).sum = 0 := by rw [weights_sum, hn]; simp
  have hany : anyWeight (weights masked e.targets) = 0 := by rw [anyWeight_eq, hn]; simp [ind]
  refine ⟨?_, ?_, ?_⟩
  · intro m hm
    cases m <;> simp only [MeanMetric.maskedValues?, Option.some.injEq, reduceCtorEq] at hm <;> subst hm
    · exact tokenStat_zero _ _ _ hw hsum
    · intro s hs
      simp only [MeanMetric.eval, List.mem_singleton] at hs
      rw [hs, hany]; exact new_zero_weight _
    · exact tokenStat_zero _ _ _ hw hsum
    · exact tokenStat_zero _ _ _ hw hsum
    · intro s hs
      simp only [MeanMetric.eval, List.mem_singleton] at hs
      rw [hs, hany]; exact new_zero_weight _
    · exact tokenStat_zero _ _ _ hw hsum
    · intro s hs
      simp only [MeanMetric.eval, List.mem_singleton] at hs
      rw [hs, hany]; exact new_zero_weight _
  · simp only [SumMetric.eval, hsum]; rfl
  · simp only [SumMetric.eval, hany]; rfl

/-- **Token weights**: `SequenceTokenCount` is the number `n` of non-masked tokens,
`SequenceCount` is `[n > 0]`, `SequenceLength` is `new n [n > 0]`, and the weight of every
(non per-position) token metric is `n`. -/
theorem C14_token_weights (masked : List Int) (e : Ex) :
    let n : Rat := numTokens masked e.targets
    (SumMetric.seqTokenCount masked).eval e = [⟨n⟩] ∧
    (SumMetric.seqCount masked).eval e = [⟨ind (decide (0 < numTokens masked e.targets))⟩] ∧
    (MeanMetric.seqLength masked).eval e = [MeanStat.new n (ind (decide (0 < numTokens masked e.targets)))] ∧
    (∀ vals, ∀ s ∈ tokenStat false vals (weights masked e.targets), s.weight = n) := by
  intro n
  refine ⟨?_, ?_, ?_, ?_⟩
  · simp only [SumMetric.eval, weights_sum, SumStat.new]; rfl
  · simp only [SumMetric.eval, anyWeight_eq, SumStat.new]
  · simp only [MeanMetric.eval, weights_sum, anyWeight_eq]; rfl
  · intro vals s hs
    simp only [tokenStat, Bool.false_eq_true, if_false, List.mem_singleton] at hs
    rw [hs, weights_sum]
    simp only [MeanStat.new]
    exact max_eq_right (by positivity)

/-! ## per-position statistics -/

theorem zipWith_new_sums : ∀ (vals ws : List Rat), vals.length = ws.length → (∀ w ∈ ws, (0 : Rat) ≤ w) →
    ((List.zipWith (fun v w => MeanStat.new (v * w) w) vals ws).map (·.accum)).sum = dot vals ws ∧
    ((List.zipWith (fun v w => MeanStat.new (v * w) w) vals ws).map (·.weight)).sum = ws.sum := by
  intro vals
  induction vals with
  | nil =>
    intro ws hl _
    have : ws = [] := List.length_eq_zero_iff.mp hl.symm
    subst this
    simp [dot]
  | cons v vals ih =>
    intro ws hl hw
    cases ws with
    | nil => simp at hl
    | cons w ws =>
      have hw0 : 0 ≤ w := hw w (List.mem_cons_self ..)
      obtain ⟨ih1, ih2⟩ := ih ws (by simpa using hl) fun x hx => hw x (List.mem_cons_of_mem _ hx)
      have hnew : MeanStat.new (v * w) w = ⟨v * w, w⟩ := by
        rcases lt_or_eq_of_le hw0 with h | h
        · exact MeanStat.new_of_pos h
        · rw [← h, MeanStat.new_of_nonpos (le_refl 0)]; simp
      refine ⟨?_, ?_⟩
      · simp only [List.zipWith_cons_cons, List.map_cons, List.sum_cons, hnew, ih1, dot]
      · simp only [List.zipWith_cons_cons, List.map_cons, List.sum_cons, hnew, ih2]

theorem tokenStat_reduce (vals ws : List Rat) (hl : vals.length = ws.length) (hw : ∀ w ∈ ws, (0 : Rat) ≤ w) :
    [MeanStat.reduce (tokenStat true vals ws)] = tokenStat false vals ws := by
  obtain ⟨h1, h2⟩ := zipWith_new_sums vals ws hl hw
  simp only [tokenStat, if_true, Bool.false_eq_true, if_false, MeanStat.reduce, h1, h2]

/-- **Summing a `per_position=True` statistic over the positions gives the
`per_position=False` statistic** (accum and weight), for the four metrics that have the flag. -/
theorem C14_per_position_sum (len : Nat) (e : Ex) (he : e.WellShaped len) (masked : List Int) :
    [MeanStat.reduce ((MeanMetric.seqTokenCE masked true).eval e)] = (MeanMetric.seqTokenCE masked false).eval e ∧
    (∀ lm, [MeanStat.reduce ((MeanMetric.seqTokenAcc masked lm true).eval e)]
      = (MeanMetric.seqTokenAcc masked lm false).eval e) ∧
    (∀ k lm, [MeanStat.reduce ((MeanMetric.seqTokenTopK k masked lm true).eval e)]
      = (MeanMetric.seqTokenTopK k masked lm false).eval e) ∧
    (∀ oov, [MeanStat.reduce ((MeanMetric.seqOOVRate oov masked true).eval e)]
      = (MeanMetric.seqOOVRate oov masked false).eval e) := by
  obtain ⟨h1, h2, h3⟩ := he
  have hw := weights_nonneg masked e.targets
  refine ⟨?_, fun lm => ?_, fun k lm => ?_, fun oov => ?_⟩ <;>
    simp only [MeanMetric.eval] <;>
    apply tokenStat_reduce _ _ _ hw <;>
    simp [weights, h1, h2, h3]

/-! ## non-vacuity: concrete instances of the hypotheses and of the documented examples -/

-- ties → lowest index; `-∞` logits masks
example : argmaxFirst [.fin 1, .fin 5, .fin 5, .ninf] = 1 := by decide
example : ([Score.fin 1, .fin 5, .fin 5, .ninf] : List Score) ≠ [] := by decide
-- stable argsort and rank agree on a vector with ties
example : argsortDesc [.fin 1, .fin 5, .fin 5, .ninf, .fin 7] = [4, 1, 2, 0, 3] := by decide
example : (List.range 5).map (rank [.fin 1, .fin 5, .fin 5, .ninf, .fin 7]) = [3, 1, 2, 4, 0] := by decide
-- k < 1 → 0 (the documented behaviour, also for k = -1), k ≥ classes → 1
example : inTopK (-1) [.fin 3, .fin 2, .fin 1] 0 = false ∧ inTopK 0 [.fin 3, .fin 2, .fin 1] 0 = false ∧
    inTopK 3 [.fin 3, .fin 2, .fin 1] 2 = true ∧ inTopK 2 [.fin 3, .fin 2, .fin 1] 2 = false := by decide
-- docstring example of SequenceTokenTopKAccuracy(k=2, logits_mask=(0,0,0,-inf)), position 0
example : inTopK 2 (applyMask [0, 2, 1, 0] (some [.fin 0, .fin 0, .fin 0, .ninf])) 1 = true := by decide
-- hypotheses of C14_confusion_trace / C14_per_domain_* are satisfiable
example : let e : Ex := ⟨[2], [[0, 1, 0]], [], 1⟩
    0 ≤ e.target ∧ e.target < 3 ∧ e.scores0.length = 3 ∧ predicted e = 1 := by decide
example : cell [⟨[2], [[0, 1, 0]], [], 0⟩, ⟨[1], [[0, 1, 1]], [], 0⟩] 2 1 = 1 ∧
    numCorrect [⟨[2], [[0, 1, 0]], [], 0⟩, ⟨[1], [[0, 1, 1]], [], 0⟩] = 1 := by decide
-- a fully masked sequence and a partly masked one
example : (∀ t ∈ [0, 0, 2], t ∈ [0, 2]) ∧ numTokens [0, 2] [1, 2, 2, 3, 4, 0, 0] = 3 := by decide
example : MeanMetric.maskedValues? (.seqOOVRate [2, 3] [0] false) = some [0] := rfl
example : (Ex.mk [1, 2, 3, 4, 0] [[], [], [], [], []] [[], [], [], [], []] 0).WellShaped 5 := ⟨rfl, rfl, rfl⟩

end FedjaxVerif.Metrics
