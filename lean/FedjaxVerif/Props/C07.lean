import FedjaxVerif.Model.TreeUtil
import Mathlib.Tactic.Ring
import Mathlib.Tactic.Linarith
import Mathlib.Tactic.FieldSimp
import Mathlib.Tactic.Positivity
import Mathlib.Tactic.NormNum
import Mathlib.Algebra.Order.Field.Basic
import Mathlib.Algebra.Order.Field.Rat
import Mathlib.Algebra.BigOperators.Group.List.Basic
import Mathlib.Analysis.Real.Sqrt

/-!
# C07 — aggregation is the exact weighted mean; clipping by global norm

Property theorems about `Model/TreeUtil.lean` (model of `tree_sum`, `tree_mean`, `tree_weight`,
`tree_inverse_weight`, `mean_aggregator`, `tree_clip_by_global_norm`).

Trees are flattened to coordinate lists; "all trees have the same structure" (which the real code
enforces by raising) is the hypothesis `∀ t ∈ …, t.length = n`.  Statements are coordinate-wise:
coordinate `k` of the result is the stated scalar expression of the `k`-th coordinates of the inputs.
The "never modifies / aliases / invalidates its inputs" half of the property is about device buffers
and is monitored at run time by the harness, not proved here.
-/

namespace FedjaxVerif.TreeUtil

/-! ## specification vocabulary -/

/-- coordinate `k` of a flattened tree -/
def coord (k : Nat) (t : Tree) : Rat := t.getD k 0

/-- `Σ wᵢ` -/
def totalW (pws : List (Tree × Rat)) : Rat := (pws.map Prod.snd).sum

/-- `Σ wᵢ · pᵢ[k]` -/
def wsumAt (k : Nat) (pws : List (Tree × Rat)) : Rat := (pws.map fun p => p.2 * coord k p.1).sum

/-- the weighted mean of coordinate `k`: `(Σ wᵢ·pᵢ[k]) / (Σ wᵢ)` if `Σ wᵢ > 0`, else `0` -/
def wmeanAt (k : Nat) (pws : List (Tree × Rat)) : Rat :=
  if 0 < totalW pws then wsumAt k pws / totalW pws else 0

/-! ## helper lemmas -/

theorem eq_range_map (n : Nat) (s : Tree) (h : s.length = n) :
    s = (List.range n).map (fun k => coord k s) := by
  apply List.ext_getElem
  · simp [h]
  · intro i h1 h2
    simp [coord, List.getD_eq_getElem?_getD, h1]

theorem coord_treeAdd (n : Nat) (s t : Tree) (hs : s.length = n) (ht : t.length = n) (k : Nat)
    (hk : k < n) : coord k (treeAdd s t) = coord k s + coord k t := by
  have h1 : k < s.length := by omega
  have h2 : k < t.length := by omega
  simp [coord, List.getD_eq_getElem?_getD, h1, h2, treeAdd]

theorem treeAdd_length (n : Nat) (s t : Tree) (hs : s.length = n) (ht : t.length = n) :
    (treeAdd s t).length = n := by
  simp [treeAdd, hs, ht]

theorem coord_treeWeight (t : Tree) (w : Rat) (k : Nat) :
    coord k (treeWeight t w) = coord k t * w := by
  unfold coord treeWeight
  by_cases h : k < t.length
  · simp [List.getD_eq_getElem?_getD, h]
  · have h' : t.length ≤ k := by omega
    simp [List.getD_eq_getElem?_getD, h']

theorem foldl_sumStep (n : Nat) (ts : List Tree) (hts : ∀ t ∈ ts, t.length = n) :
    ∀ s : Tree, s.length = n →
      ts.foldl sumStep (some s)
        = some ((List.range n).map fun k => coord k s + (ts.map (coord k)).sum) := by
  induction ts with
  | nil =>
    intro s hs
    simp only [List.foldl_nil, List.map_nil, List.sum_nil, add_zero]
    exact congrArg some (eq_range_map n s hs)
  | cons t ts ih =>
    intro s hs
    have ht : t.length = n := hts t List.mem_cons_self
    simp only [List.foldl_cons, sumStep]
    rw [ih (fun u hu => hts u (List.mem_cons_of_mem _ hu)) _ (treeAdd_length n s t hs ht)]
    congr 1
    apply List.map_congr_left
    intro k hk
    rw [List.mem_range] at hk
    rw [coord_treeAdd n s t hs ht k hk, List.map_cons, List.sum_cons]
    ring

theorem treeSum_cons (n : Nat) (t : Tree) (ts : List Tree) (hts : ∀ u ∈ t :: ts, u.length = n) :
    treeSum (t :: ts) = some ((List.range n).map fun k => ((t :: ts).map (coord k)).sum) := by
  unfold treeSum
  simp only [List.foldl_cons, sumStep]
  rw [foldl_sumStep n ts (fun u hu => hts u (List.mem_cons_of_mem _ hu)) t (hts t List.mem_cons_self)]
  simp [List.sum_cons]

theorem foldl_meanStep (pws : List (Tree × Rat)) :
    ∀ st : Option Tree × Rat,
      pws.foldl meanStep st
        = ((pws.map fun p => treeWeight p.1 p.2).foldl sumStep st.1, st.2 + totalW pws) := by
  induction pws with
  | nil => intro st; simp [totalW]
  | cons p pws ih =>
    intro st
    simp only [List.foldl_cons, List.map_cons]
    rw [ih]
    simp only [meanStep, totalW, List.map_cons, List.sum_cons]
    congr 1
    ring

theorem treeMean_eq (pws : List (Tree × Rat)) :
    treeMean pws
      = (treeSum (pws.map fun p => treeWeight p.1 p.2)).map
          fun s => treeInverseWeight s (totalW pws) := by
  unfold treeMean treeSum
  rw [foldl_meanStep]
  simp

theorem inverseWeight_mul (x w : Rat) :
    x * inverseWeight w = if 0 < w then x / w else 0 := by
  unfold inverseWeight
  split <;> simp [div_eq_mul_inv]

/-! ## property theorems: sum and mean -/

/-- `tree_sum` of `m ≥ 1` trees of equal structure is the coordinate-wise sum. -/
theorem C07_sum_formula (n : Nat) (ts : List Tree) (hne : ts ≠ [])
    (hts : ∀ t ∈ ts, t.length = n) :
    treeSum ts = some ((List.range n).map fun k => (ts.map (coord k)).sum) := by
  cases ts with
  | nil => exact absurd rfl hne
  | cons t ts => exact treeSum_cons n t ts hts

/-- `tree_mean` is, coordinate by coordinate, `(Σ wᵢ·pᵢ)/(Σ wᵢ)` when `Σ wᵢ > 0` and `0` otherwise
(for every weight vector; non-negativity is not even needed for the formula). -/
theorem C07_mean_formula (n : Nat) (pws : List (Tree × Rat)) (hne : pws ≠ [])
    (hlen : ∀ p ∈ pws, p.1.length = n) :
    treeMean pws = some ((List.range n).map fun k => wmeanAt k pws) := by
  rw [treeMean_eq]
  have hne' : (pws.map fun p => treeWeight p.1 p.2) ≠ [] := by simpa using hne
  have hlen' : ∀ t ∈ (pws.map fun p => treeWeight p.1 p.2), t.length = n := by
    intro t ht
    obtain ⟨p, hp, rfl⟩ := List.mem_map.mp ht
    simpa [treeWeight] using hlen p hp
  have key : ∀ k, ((pws.map fun p => treeWeight p.1 p.2).map (coord k)).sum = wsumAt k pws := by
    intro k
    rw [List.map_map]
    unfold wsumAt
    congr 1
    apply List.map_congr_left
    intro p _
    simp only [Function.comp, coord_treeWeight]
    ring
  rw [C07_sum_formula n _ hne' hlen']
  simp only [Option.map_some, treeInverseWeight]
  congr 1
  show List.map (· * inverseWeight (totalW pws)) (List.map _ (List.range n)) = _
  rw [List.map_map]
  apply List.map_congr_left
  intro k _
  simp only [Function.comp, inverseWeight_mul, wmeanAt, key]

/-- `tree_mean` never fails on a non-empty input and keeps the tree structure. -/
theorem C07_mean_length (n : Nat) (pws : List (Tree × Rat)) (hne : pws ≠ [])
    (hlen : ∀ p ∈ pws, p.1.length = n) :
    ∃ r, treeMean pws = some r ∧ r.length = n := by
  refine ⟨_, C07_mean_formula n pws hne hlen, by simp⟩

/-- Total weight zero (in particular: all weights zero) gives the all-zero tree, not NaN. -/
theorem C07_zero_total (n : Nat) (pws : List (Tree × Rat)) (hne : pws ≠ [])
    (hlen : ∀ p ∈ pws, p.1.length = n) (h0 : totalW pws = 0) :
    treeMean pws = some (List.replicate n 0) := by
  rw [C07_mean_formula n pws hne hlen]
  congr 1
  apply List.ext_getElem
  · simp
  · intro i h1 h2
    simp [wmeanAt, h0]

/-- non-negative weights with total `0` are all `0` (so "total weight zero" = "every weight zero") -/
theorem C07_zero_total_iff (pws : List (Tree × Rat)) (hw : ∀ p ∈ pws, 0 ≤ p.2) :
    totalW pws = 0 ↔ ∀ p ∈ pws, p.2 = 0 := by
  induction pws with
  | nil => simp [totalW]
  | cons p pws ih =>
    have hp : 0 ≤ p.2 := hw p List.mem_cons_self
    have hrest : ∀ q ∈ pws, 0 ≤ q.2 := fun q hq => hw q (List.mem_cons_of_mem _ hq)
    have hnn : 0 ≤ totalW pws := by
      unfold totalW
      apply List.sum_nonneg
      intro x hx
      obtain ⟨q, hq, rfl⟩ := List.mem_map.mp hx
      exact hrest q hq
    have ih' := ih hrest
    simp only [totalW, List.map_cons, List.sum_cons, List.mem_cons, forall_eq_or_imp] at *
    constructor
    · intro h
      have h1 : p.2 = 0 := by linarith
      have h2 : (pws.map Prod.snd).sum = 0 := by linarith
      exact ⟨h1, ih'.mp h2⟩
    · rintro ⟨h1, h2⟩
      rw [h1, ih'.mpr h2]; ring

/-- Order independence: any permutation of the (tree, weight) pairs gives the same mean. -/
theorem C07_perm (n : Nat) (pws pws' : List (Tree × Rat)) (hp : pws.Perm pws')
    (hlen : ∀ p ∈ pws, p.1.length = n) :
    treeMean pws = treeMean pws' := by
  by_cases hne : pws = []
  · subst hne
    rw [List.Perm.nil_eq hp]
  · have hne' : pws' ≠ [] := fun h => hne (by subst h; exact List.Perm.eq_nil hp)
    have hlen' : ∀ p ∈ pws', p.1.length = n := fun p h => hlen p (hp.mem_iff.mpr h)
    rw [C07_mean_formula n pws hne hlen, C07_mean_formula n pws' hne' hlen']
    congr 1
    apply List.map_congr_left
    intro k _
    have h1 : totalW pws = totalW pws' := (hp.map _).sum_eq
    have h2 : wsumAt k pws = wsumAt k pws' := (hp.map _).sum_eq
    simp only [wmeanAt, h1, h2]

/-- Order independence of `tree_sum`. -/
theorem C07_sum_perm (n : Nat) (ts ts' : List Tree) (hp : ts.Perm ts')
    (hts : ∀ t ∈ ts, t.length = n) : treeSum ts = treeSum ts' := by
  by_cases hne : ts = []
  · subst hne
    rw [List.Perm.nil_eq hp]
  · have hne' : ts' ≠ [] := fun h => hne (by subst h; exact List.Perm.eq_nil hp)
    have hts' : ∀ t ∈ ts', t.length = n := fun t h => hts t (hp.mem_iff.mpr h)
    rw [C07_sum_formula n ts hne hts, C07_sum_formula n ts' hne' hts']
    congr 1
    apply List.map_congr_left
    intro k _
    exact (hp.map _).sum_eq

theorem hull_lower (k : Nat) (lo : Rat) (pws : List (Tree × Rat)) (hw : ∀ p ∈ pws, 0 ≤ p.2)
    (hlo : ∀ p ∈ pws, 0 < p.2 → lo ≤ coord k p.1) : lo * totalW pws ≤ wsumAt k pws := by
  induction pws with
  | nil => simp [totalW, wsumAt]
  | cons p pws ih =>
    have ih' := ih (fun q hq => hw q (List.mem_cons_of_mem _ hq))
      (fun q hq => hlo q (List.mem_cons_of_mem _ hq))
    have hp : 0 ≤ p.2 := hw p List.mem_cons_self
    simp only [totalW, wsumAt, List.map_cons, List.sum_cons] at *
    rcases hp.lt_or_eq with hpos | hz
    · have := hlo p List.mem_cons_self hpos
      have : lo * p.2 ≤ p.2 * coord k p.1 := by
        rw [mul_comm]; exact mul_le_mul_of_nonneg_left this hp
      linarith
    · rw [← hz]; linarith

theorem hull_upper (k : Nat) (hi : Rat) (pws : List (Tree × Rat)) (hw : ∀ p ∈ pws, 0 ≤ p.2)
    (hhi : ∀ p ∈ pws, 0 < p.2 → coord k p.1 ≤ hi) : wsumAt k pws ≤ hi * totalW pws := by
  induction pws with
  | nil => simp [totalW, wsumAt]
  | cons p pws ih =>
    have ih' := ih (fun q hq => hw q (List.mem_cons_of_mem _ hq))
      (fun q hq => hhi q (List.mem_cons_of_mem _ hq))
    have hp : 0 ≤ p.2 := hw p List.mem_cons_self
    simp only [totalW, wsumAt, List.map_cons, List.sum_cons] at *
    rcases hp.lt_or_eq with hpos | hz
    · have := hhi p List.mem_cons_self hpos
      have : p.2 * coord k p.1 ≤ hi * p.2 := by
        rw [mul_comm hi]; exact mul_le_mul_of_nonneg_left this hp
      linarith
    · rw [← hz]; linarith

/-- Convex hull: with non-negative weights of positive total, every coordinate of the mean lies
between any lower and upper bound of that coordinate over the inputs of positive weight — in
particular inside the coordinate-wise `[min, max]` of all inputs. -/
theorem C07_hull (n : Nat) (pws : List (Tree × Rat)) (hlen : ∀ p ∈ pws, p.1.length = n)
    (hw : ∀ p ∈ pws, 0 ≤ p.2) (hpos : 0 < totalW pws) (k : Nat) (lo hi : Rat)
    (hlo : ∀ p ∈ pws, 0 < p.2 → lo ≤ coord k p.1)
    (hhi : ∀ p ∈ pws, 0 < p.2 → coord k p.1 ≤ hi) :
    ∃ r, treeMean pws = some r ∧ (k < n → lo ≤ coord k r ∧ coord k r ≤ hi) := by
  have hne : pws ≠ [] := by
    intro h; subst h; simp [totalW] at hpos
  refine ⟨_, C07_mean_formula n pws hne hlen, ?_⟩
  intro hk
  have : coord k ((List.range n).map fun k => wmeanAt k pws) = wmeanAt k pws := by
    simp [coord, List.getD_eq_getElem?_getD, hk]
  rw [this]
  simp only [wmeanAt, if_pos hpos]
  exact ⟨(le_div_iff₀ hpos).mpr (hull_lower k lo pws hw hlo),
         (div_le_iff₀ hpos).mpr (hull_upper k hi pws hw hhi)⟩

/-- The `[min, max]` reading of the hull clause, over *all* inputs. -/
theorem C07_hull_all (n : Nat) (pws : List (Tree × Rat)) (hlen : ∀ p ∈ pws, p.1.length = n)
    (hw : ∀ p ∈ pws, 0 ≤ p.2) (hpos : 0 < totalW pws) (k : Nat) (lo hi : Rat)
    (hb : ∀ p ∈ pws, lo ≤ coord k p.1 ∧ coord k p.1 ≤ hi) :
    ∃ r, treeMean pws = some r ∧ (k < n → lo ≤ coord k r ∧ coord k r ≤ hi) :=
  C07_hull n pws hlen hw hpos k lo hi (fun p hp _ => (hb p hp).1) (fun p hp _ => (hb p hp).2)

/-- A single client: the mean is that client's tree (weight `> 0`). -/
theorem C07_mean_single (t : Tree) (w : Rat) (hw : 0 < w) : treeMean [(t, w)] = some t := by
  rw [C07_mean_formula t.length [(t, w)] (by simp) (by simp)]
  congr 1
  conv_rhs => rw [eq_range_map t.length t rfl]
  apply List.map_congr_left
  intro k _
  simp only [wmeanAt, totalW, wsumAt, List.map_cons, List.map_nil, List.sum_cons, List.sum_nil,
    add_zero, if_pos hw]
  field_simp

/-- `tree_inverse_weight`: division by a positive weight, zeros otherwise (never a division by 0). -/
theorem C07_inverse_weight (t : Tree) (w : Rat) :
    treeInverseWeight t w = if 0 < w then t.map (· / w) else t.map (fun _ => 0) := by
  unfold treeInverseWeight treeWeight
  split
  · apply List.map_congr_left; intro x _; simp [inverseWeight_mul, *]
  · apply List.map_congr_left; intro x _; simp [inverseWeight_mul, *]

/-- `mean_aggregator().apply` ignores the client ids and is the weighted mean of (params, weight). -/
theorem C07_aggregator_formula {ι : Type} (n : Nat) (cpws : List (ι × Tree × Rat)) (hne : cpws ≠ [])
    (hlen : ∀ c ∈ cpws, c.2.1.length = n) :
    meanAggregator cpws
      = some ((List.range n).map fun k => wmeanAt k (cpws.map fun c => (c.2.1, c.2.2))) := by
  unfold meanAggregator
  apply C07_mean_formula
  · simpa using hne
  · intro p hp
    obtain ⟨c, hc, rfl⟩ := List.mem_map.mp hp
    exact hlen c hc

/-! ## weights need not be normalised -/

theorem totalW_scale (c : Rat) (pws : List (Tree × Rat)) :
    totalW (pws.map fun p => (p.1, c * p.2)) = c * totalW pws := by
  unfold totalW
  induction pws with
  | nil => simp
  | cons p pws ih =>
    simp only [List.map_cons, List.sum_cons] at ih ⊢
    rw [ih]; ring

theorem wsumAt_scale (k : Nat) (c : Rat) (pws : List (Tree × Rat)) :
    wsumAt k (pws.map fun p => (p.1, c * p.2)) = c * wsumAt k pws := by
  unfold wsumAt
  induction pws with
  | nil => simp
  | cons p pws ih =>
    simp only [List.map_cons, List.sum_cons] at ih ⊢
    rw [ih]; ring

/-- Weights need not be normalised: multiplying every weight by the same `c > 0` (e.g. passing
`num_examples` versus `num_examples / total`) leaves the mean unchanged. -/
theorem C07_mean_weight_scale (n : Nat) (c : Rat) (hc : 0 < c) (pws : List (Tree × Rat))
    (hlen : ∀ p ∈ pws, p.1.length = n) :
    treeMean (pws.map fun p => (p.1, c * p.2)) = treeMean pws := by
  by_cases hne : pws = []
  · subst hne; rfl
  · have hne' : (pws.map fun p : Tree × Rat => (p.1, c * p.2)) ≠ [] := by simpa using hne
    have hlen' : ∀ p ∈ (pws.map fun p : Tree × Rat => (p.1, c * p.2)), p.1.length = n := by
      intro p hp
      obtain ⟨q, hq, rfl⟩ := List.mem_map.mp hp
      exact hlen q hq
    rw [C07_mean_formula n _ hne' hlen', C07_mean_formula n pws hne hlen]
    congr 1
    apply List.map_congr_left
    intro k _
    simp only [wmeanAt, totalW_scale, wsumAt_scale]
    by_cases hpos : 0 < totalW pws
    · have : 0 < c * totalW pws := mul_pos hc hpos
      rw [if_pos this, if_pos hpos]
      field_simp
    · have : ¬ 0 < c * totalW pws := by
        intro h; exact hpos ((mul_pos_iff_of_pos_left hc).mp h)
      rw [if_neg this, if_neg hpos]

/-! ## clipping by global norm, over any linearly ordered field -/

section Clip
variable {K : Type} [Field K] [LinearOrder K] [IsStrictOrderedRing K]

omit [LinearOrder K] [IsStrictOrderedRing K] in
theorem l2Squared_scale (s : K) (xs : List K) :
    l2Squared (xs.map fun t => s * t) = (s * s) * l2Squared xs := by
  unfold l2Squared
  induction xs with
  | nil => simp
  | cons x xs ih =>
    simp only [List.map_cons, List.sum_cons] at *
    rw [ih]; ring

theorem l2Squared_nonneg (xs : List K) : 0 ≤ l2Squared xs := by
  unfold l2Squared
  apply List.sum_nonneg
  intro y hy
  obtain ⟨x, _, rfl⟩ := List.mem_map.mp hy
  exact mul_self_nonneg x

theorem l2Squared_eq_zero (xs : List K) (h : l2Squared xs = 0) : ∀ x ∈ xs, x = 0 := by
  induction xs with
  | nil => simp
  | cons x xs ih =>
    have h1 : 0 ≤ l2Squared xs := l2Squared_nonneg xs
    have h2 : 0 ≤ x * x := mul_self_nonneg x
    simp only [l2Squared, List.map_cons, List.sum_cons] at h h1
    have hx : x * x = 0 := by linarith
    have hr : l2Squared xs = 0 := by unfold l2Squared; linarith
    intro y hy
    rcases List.mem_cons.mp hy with rfl | hy
    · exact mul_self_eq_zero.mp hx
    · exact ih hr y hy

/-- The scale: defined, in `(0, 1]`, equal to `1` below the bound and to `M / nrm` above it. -/
theorem clipScale_spec (nrm M : K) (hn : 0 ≤ nrm) (hM : 0 < M) :
    ∃ s, clipScale nrm M = some s ∧ 0 < s ∧ s ≤ 1 ∧ s * nrm ≤ M ∧
      (nrm ≤ M → s = 1) ∧ (M < nrm → s * nrm = M) := by
  unfold clipScale
  by_cases h0 : nrm = 0
  · subst h0
    refine ⟨1, by simp [hM], one_pos, le_refl _, by simpa using hM.le, fun _ => rfl, ?_⟩
    intro h; exact absurd h (not_lt.mpr hM.le)
  · have hpos : 0 < nrm := lt_of_le_of_ne hn (Ne.symm h0)
    refine ⟨min 1 (M / nrm), by simp [h0], lt_min one_pos (div_pos hM hpos), min_le_left _ _, ?_, ?_, ?_⟩
    · calc min 1 (M / nrm) * nrm ≤ (M / nrm) * nrm :=
            mul_le_mul_of_nonneg_right (min_le_right _ _) hn
        _ = M := by field_simp
    · intro hle
      exact min_eq_left ((one_le_div hpos).mpr hle)
    · intro hlt
      rw [min_eq_right ((div_le_one hpos).mpr hlt.le)]
      field_simp

/-- Clipping is defined for every positive bound, is a rescaling by one factor `s ∈ (0, 1]`
(direction unchanged) … -/
theorem C07_clip_direction (nrm M : K) (xs : List K) (hn : 0 ≤ nrm) (hM : 0 < M) :
    ∃ s, 0 < s ∧ s ≤ 1 ∧ clipByGlobalNorm nrm M xs = some (xs.map fun t => s * t) := by
  obtain ⟨s, hs, h1, h2, _⟩ := clipScale_spec nrm M hn hM
  exact ⟨s, h1, h2, by simp [clipByGlobalNorm, hs]⟩

/-- … whose result has global norm at most the bound: `s·nrm` is the norm of the result
(non-negative, squares to the result's `l2Squared`) and `s·nrm ≤ M`; hence `‖clip‖² ≤ M²`.
When the input exceeds the bound the result's norm is exactly the bound. -/
theorem C07_clip_norm (nrm M : K) (xs : List K) (hn : 0 ≤ nrm) (hsq : nrm * nrm = l2Squared xs)
    (hM : 0 < M) :
    ∃ ys nrm', clipByGlobalNorm nrm M xs = some ys ∧ 0 ≤ nrm' ∧ nrm' * nrm' = l2Squared ys ∧
      nrm' ≤ M ∧ l2Squared ys ≤ M * M ∧ (M < nrm → nrm' = M) := by
  obtain ⟨s, hs, h1, h2, h3, _, h5⟩ := clipScale_spec nrm M hn hM
  have hn' : 0 ≤ s * nrm := mul_nonneg h1.le hn
  have hsq' : (s * nrm) * (s * nrm) = l2Squared (xs.map fun t => s * t) := by
    rw [l2Squared_scale, ← hsq]; ring
  refine ⟨xs.map fun t => s * t, s * nrm, by simp [clipByGlobalNorm, hs], hn', hsq', h3, ?_, h5⟩
  rw [← hsq']
  exact mul_le_mul h3 h3 hn' hM.le

/-- Identity below (or at) the bound. -/
theorem C07_clip_identity (nrm M : K) (xs : List K) (hn : 0 ≤ nrm) (hM : 0 < M) (hle : nrm ≤ M) :
    clipByGlobalNorm nrm M xs = some xs := by
  obtain ⟨s, hs, _, _, _, h4, _⟩ := clipScale_spec nrm M hn hM
  have : s = 1 := h4 hle
  subst this
  simp [clipByGlobalNorm, hs]

/-- The zero tree is a fixed point for every positive bound (its norm is `0`, `max_norm / 0 = +∞`,
scale `1`). -/
theorem C07_clip_zero (nrm M : K) (xs : List K) (hn : 0 ≤ nrm) (hsq : nrm * nrm = l2Squared xs)
    (hM : 0 < M) (hz : ∀ x ∈ xs, x = 0) :
    nrm = 0 ∧ clipByGlobalNorm nrm M xs = some xs := by
  have h0 : l2Squared xs = 0 := by
    unfold l2Squared
    apply List.sum_eq_zero
    intro y hy
    obtain ⟨x, hx, rfl⟩ := List.mem_map.mp hy
    rw [hz x hx]; ring
  have hn0 : nrm = 0 := mul_self_eq_zero.mp (hsq.trans h0)
  exact ⟨hn0, C07_clip_identity nrm M xs hn hM (by rw [hn0]; exact hM.le)⟩

/-- Clipping is idempotent: clipping the clipped tree again (with its own norm) changes nothing. -/
theorem C07_clip_idempotent (nrm M : K) (xs : List K) (hn : 0 ≤ nrm)
    (hsq : nrm * nrm = l2Squared xs) (hM : 0 < M) :
    ∃ ys nrm', clipByGlobalNorm nrm M xs = some ys ∧ 0 ≤ nrm' ∧ nrm' * nrm' = l2Squared ys ∧
      clipByGlobalNorm nrm' M ys = some ys := by
  obtain ⟨ys, nrm', h1, h2, h3, h4, _, _⟩ := C07_clip_norm nrm M xs hn hsq hM
  exact ⟨ys, nrm', h1, h2, h3, C07_clip_identity nrm' M ys h2 hM h4⟩

/-- Clipping keeps the tree structure and never increases the global norm (`‖clip x‖² ≤ ‖x‖²`). -/
theorem C07_clip_shrinks (nrm M : K) (xs : List K) (hn : 0 ≤ nrm) (hM : 0 < M) :
    ∃ ys, clipByGlobalNorm nrm M xs = some ys ∧ ys.length = xs.length ∧
      l2Squared ys ≤ l2Squared xs := by
  obtain ⟨s, h1, h2, h3⟩ := C07_clip_direction nrm M xs hn hM
  refine ⟨_, h3, by simp, ?_⟩
  rw [l2Squared_scale]
  have hss : s * s ≤ 1 := by nlinarith
  calc s * s * l2Squared xs ≤ 1 * l2Squared xs :=
        mul_le_mul_of_nonneg_right hss (l2Squared_nonneg xs)
    _ = l2Squared xs := one_mul _

omit [IsStrictOrderedRing K] in
/-- The guard `0 < M` is necessary: at bound `0` the zero tree has no finite image (`0/0`). -/
theorem C07_clip_zero_bound_undefined (xs : List K) : clipByGlobalNorm (0 : K) 0 xs = none := by
  simp [clipByGlobalNorm, clipScale]

end Clip

/-- Over `ℝ` the norm always exists: the full statement of the clipping clause for every real tree
and every positive bound, with `global_norm = √(Σ x²)`. -/
theorem C07_clip_real (xs : List ℝ) (M : ℝ) (hM : 0 < M) :
    ∃ ys s, clipByGlobalNorm (Real.sqrt (l2Squared xs)) M xs = some ys ∧
      0 < s ∧ s ≤ 1 ∧ ys = xs.map (fun t => s * t) ∧
      Real.sqrt (l2Squared ys) ≤ M ∧
      (Real.sqrt (l2Squared xs) ≤ M → ys = xs) := by
  have hn : 0 ≤ Real.sqrt (l2Squared xs) := Real.sqrt_nonneg _
  have hsq : Real.sqrt (l2Squared xs) * Real.sqrt (l2Squared xs) = l2Squared xs :=
    Real.mul_self_sqrt (l2Squared_nonneg xs)
  obtain ⟨s, h1, h2, hs⟩ := C07_clip_direction (Real.sqrt (l2Squared xs)) M xs hn hM
  obtain ⟨ys, nrm', hy, hn', hsq', hle, _, _⟩ := C07_clip_norm _ M xs hn hsq hM
  refine ⟨ys, s, hy, h1, h2, ?_, ?_, ?_⟩
  · rw [hs] at hy; exact (Option.some.inj hy).symm
  · rw [← hsq', Real.sqrt_mul_self hn']; exact hle
  · intro h
    have := C07_clip_identity _ M xs hn hM h
    rw [this] at hy; exact (Option.some.inj hy).symm

/-! ## non-vacuity -/

example : treeMean [([1, 2], 1), ([3, 5], 2)] = some [7/3, 4] := by
  rw [C07_mean_formula 2 _ (by simp) (by simp)]
  norm_num [wmeanAt, totalW, wsumAt, coord, List.range, List.range.loop]
example : treeMean [([1, 2], 0), ([3, 5], 0)] = some [0, 0] :=
  C07_zero_total 2 _ (by simp) (by simp) (by norm_num [totalW])
example : treeSum [[1, 2], [3, 5], [10, 20]] = some [14, 27] := by
  rw [C07_sum_formula 2 _ (by simp) (by simp)]
  norm_num [coord, List.range, List.range.loop]
example : treeMean [([1, 2], 1), ([3, 5], 2)] = treeMean [([3, 5], 2), ([1, 2], 1)] :=
  C07_perm 2 _ _ (List.Perm.swap _ _ _) (by simp)
example : ∃ r, treeMean [([1, 2], 1), ([3, 5], 2)] = some r ∧ (0 < 2 → 1 ≤ coord 0 r ∧ coord 0 r ≤ 3) :=
  C07_hull_all 2 _ (by simp) (by simp) (by norm_num [totalW]) 0 1 3
    (by simp [coord])
example : clipByGlobalNorm (5 : Rat) 1 [3, 4] = some [3/5, 4/5] := by
  norm_num [clipByGlobalNorm, clipScale]
example : (0 : Rat) ≤ 5 ∧ (5 : Rat) * 5 = l2Squared [3, 4] ∧ (0 : Rat) < 1 := by
  norm_num [l2Squared]
example : clipByGlobalNorm (5 : Rat) 7 [3, 4] = some [3, 4] :=
  C07_clip_identity 5 7 [3, 4] (by norm_num) (by norm_num) (by norm_num)

example : ∃ r, treeMean [([1, 2], 1), ([3, 5], 2)] = some r ∧ r.length = 2 :=
  C07_mean_length 2 _ (by simp) (by simp)
example : totalW [([1, 2], 0), ([3, 5], 0)] = 0 :=
  (C07_zero_total_iff _ (by simp)).mpr (by simp)
example : treeSum [[1, 2], [3, 5]] = treeSum [[3, 5], [1, 2]] :=
  C07_sum_perm 2 _ _ (List.Perm.swap _ _ _) (by simp)
example : ∃ r, treeMean [([1, 2], 1), ([9, 9], 0), ([3, 5], 2)] = some r ∧
    (1 < 2 → 2 ≤ coord 1 r ∧ coord 1 r ≤ 5) :=
  C07_hull 2 _ (by simp) (by simp) (by norm_num [totalW]) 1 2 5
    (by simp [coord]; norm_num) (by simp [coord]; norm_num)
example : treeMean [([1, 2], 3)] = some [1, 2] := C07_mean_single _ _ (by norm_num)
example : treeInverseWeight [2, 4] 2 = [1, 2] ∧ treeInverseWeight [2, 4] 0 = [0, 0] := by
  rw [C07_inverse_weight, C07_inverse_weight]; norm_num
example : meanAggregator [("a", [1, 2], 1), ("b", [3, 5], 2)] = some [7/3, 4] := by
  rw [C07_aggregator_formula 2 _ (by simp) (by simp)]
  norm_num [wmeanAt, totalW, wsumAt, coord, List.range, List.range.loop]
example : ∃ s : Rat, 0 < s ∧ s ≤ 1 ∧ clipByGlobalNorm 5 1 [3, 4] = some ([3, 4].map fun t => s * t) :=
  C07_clip_direction 5 1 [3, 4] (by norm_num) (by norm_num)
example : ∃ (ys : List Rat) (nrm' : Rat), clipByGlobalNorm 5 1 [3, 4] = some ys ∧ 0 ≤ nrm' ∧
    nrm' * nrm' = l2Squared ys ∧ nrm' ≤ 1 ∧ l2Squared ys ≤ 1 * 1 ∧ ((1 : Rat) < 5 → nrm' = 1) :=
  C07_clip_norm 5 1 [3, 4] (by norm_num) (by norm_num [l2Squared]) (by norm_num)
example : (0 : Rat) = 0 ∧ clipByGlobalNorm (0 : Rat) 2 [0, 0] = some [0, 0] :=
  C07_clip_zero 0 2 [0, 0] (by norm_num) (by norm_num [l2Squared]) (by norm_num) (by simp)
example : clipByGlobalNorm (0 : Rat) 0 [0, 0] = none := C07_clip_zero_bound_undefined _
example : ∃ (ys : List ℝ) (s : ℝ), clipByGlobalNorm (Real.sqrt (l2Squared [3, 4])) 1 [3, 4] = some ys ∧
    0 < s ∧ s ≤ 1 ∧ ys = [3, 4].map (fun t => s * t) ∧ Real.sqrt (l2Squared ys) ≤ 1 ∧
    (Real.sqrt (l2Squared [3, 4]) ≤ 1 → ys = [3, 4]) :=
  C07_clip_real [3, 4] 1 (by norm_num)

/-! ## complex leaves

A complex leaf enters the flattened tree as the pairs `(re, im)` of real coordinates (`realify`): the global norm is
`√Σ|z|² = √Σ(re² + im²)`, the clip scale is real, so every theorem above applies verbatim to the realified tree.  The
two statements below spell the consequence out: the squared norm is `Σ |z|²`, and clipping multiplies every complex
number by one real factor `s ∈ (0, 1]` — modulus scaled, phase unchanged. -/

section Complex
variable {K : Type} [Field K] [LinearOrder K] [IsStrictOrderedRing K]

/-- flattened real coordinates of a list of complex numbers given as `(re, im)` -/
def realify (zs : List (K × K)) : List K := zs.flatMap fun z => [z.1, z.2]

omit [LinearOrder K] [IsStrictOrderedRing K] in
theorem realify_scale (s : K) (zs : List (K × K)) :
    (realify zs).map (fun t => s * t) = realify (zs.map fun z => (s * z.1, s * z.2)) := by
  induction zs with
  | nil => simp [realify]
  | cons z zs ih =>
    simp only [realify, List.flatMap_cons, List.map_append, List.map_cons, List.map_nil] at ih ⊢
    rw [ih]

omit [LinearOrder K] [IsStrictOrderedRing K] in
/-- `tree_l2_squared` of a complex tree is `Σ |z|² = Σ (re² + im²)` (`vdot` conjugates its first argument). -/
theorem C07_l2Squared_complex (zs : List (K × K)) :
    l2Squared (realify zs) = (zs.map fun z => z.1 * z.1 + z.2 * z.2).sum := by
  unfold l2Squared
  induction zs with
  | nil => simp [realify]
  | cons z zs ih =>
    simp only [realify, List.flatMap_cons, List.map_append, List.map_cons, List.map_nil, List.sum_append,
      List.sum_cons, List.sum_nil] at ih ⊢
    rw [ih]; ring

/-- Clipping a complex tree multiplies every complex coordinate by ONE real factor `s ∈ (0, 1]` (phase unchanged),
is the identity at or below the bound, and its result has `Σ|z|² ≤ M²`. -/
theorem C07_clip_complex (nrm M : K) (zs : List (K × K)) (hn : 0 ≤ nrm)
    (hsq : nrm * nrm = (zs.map fun z => z.1 * z.1 + z.2 * z.2).sum) (hM : 0 < M) :
    ∃ s, 0 < s ∧ s ≤ 1 ∧
      clipByGlobalNorm nrm M (realify zs) = some (realify (zs.map fun z => (s * z.1, s * z.2))) ∧
      ((zs.map fun z => (s * z.1, s * z.2)).map fun z => z.1 * z.1 + z.2 * z.2).sum ≤ M * M ∧
      (nrm ≤ M → s = 1) := by
  obtain ⟨s, hs, h1, h2, h3, h4, _⟩ := clipScale_spec nrm M hn hM
  refine ⟨s, h1, h2, ?_, ?_, h4⟩
  · simp only [clipByGlobalNorm, hs, Option.map_some]
    rw [realify_scale]
  · rw [← C07_l2Squared_complex, ← realify_scale, l2Squared_scale, C07_l2Squared_complex, ← hsq]
    have hn' : 0 ≤ s * nrm := mul_nonneg h1.le hn
    calc s * s * (nrm * nrm) = (s * nrm) * (s * nrm) := by ring
      _ ≤ M * M := mul_le_mul h3 h3 hn' hM.le

end Complex

example : clipByGlobalNorm (5 : Rat) 1 (realify [((3 : Rat), (4 : Rat))]) = some (realify [(3/5, 4/5)]) := by
  norm_num [clipByGlobalNorm, clipScale, realify]
example : ∃ s : Rat, 0 < s ∧ s ≤ 1 ∧
    clipByGlobalNorm 5 1 (realify [((0 : Rat), (5 : Rat))]) = some (realify ([((0 : Rat), (5 : Rat))].map fun z => (s * z.1, s * z.2))) ∧
    (([((0 : Rat), (5 : Rat))].map fun z => (s * z.1, s * z.2)).map fun z => z.1 * z.1 + z.2 * z.2).sum ≤ 1 * 1 ∧
    ((5 : Rat) ≤ 1 → s = 1) :=
  C07_clip_complex 5 1 [(0, 5)] (by norm_num) (by norm_num) (by norm_num)
example : l2Squared (realify [((3 : Rat), (4 : Rat)), (0, 1)]) = 26 := by
  rw [C07_l2Squared_complex]; norm_num

end FedjaxVerif.TreeUtil
