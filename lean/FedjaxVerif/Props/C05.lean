import FedjaxVerif.Lemmas.Stats
import FedjaxVerif.Lemmas.Metrics
import FedjaxVerif.Props.C03
import FedjaxVerif.Props.C15

/-!
# C05 — evaluation is invariant to batching and padding (metric monoid)

Theorems about `Model/Stats.lean` (`MeanStat`, `SumStat`, their pointwise lifts, `evalBatch`,
`evalStep`, `evalModel`) and their instantiation at the built-in metrics of `Model/Metrics.lean`.
Everything is exact arithmetic over `Rat`; "valid" is the documented domain
`{(0,0)} ∪ {(a,b) | b > 0}` of `MeanStat` (every `SumStat` is valid).
-/

namespace FedjaxVerif.Stats
open FedjaxVerif.Metrics Lawful

/-! ## the monoid -/

/-- On the documented domain `merge` is associative and commutative with `zero` as two-sided
identity, and `reduce` is the iterated merge — for `MeanStat`, for `SumStat`, and for every
pointwise lift of them (per-position, per-domain, confusion-matrix statistics of `n` entries). -/
theorem C05_monoid :
    Lawful meanOps MeanStat.Valid ∧ Lawful sumOps (fun _ => True) ∧
    (∀ n, Lawful (vecOps n meanOps) (VecValid n MeanStat.Valid)) ∧
    (∀ n, Lawful (vecOps n sumOps) (VecValid n fun _ => True)) :=
  ⟨meanLawful, sumLawful, fun n => vecLawful n meanLawful, fun n => vecLawful n sumLawful⟩

/-- the same, spelled out for `MeanStat` -/
theorem C05_monoid_mean (s t u : MeanStat) (hs : s.Valid) (ht : t.Valid) (hu : u.Valid) :
    (s.merge t).merge u = s.merge (t.merge u) ∧ s.merge t = t.merge s ∧
    MeanStat.zero.merge s = s ∧ s.merge MeanStat.zero = s :=
  ⟨MeanStat.merge_assoc hs ht hu, MeanStat.merge_comm s t, MeanStat.zero_merge hs,
    by rw [MeanStat.merge_comm]; exact MeanStat.zero_merge hs⟩

/-- the same, spelled out for `SumStat` (no domain restriction) -/
theorem C05_monoid_sum (s t u : SumStat) :
    (s.merge t).merge u = s.merge (t.merge u) ∧ s.merge t = t.merge s ∧
    SumStat.zero.merge s = s ∧ s.merge SumStat.zero = s :=
  ⟨SumStat.merge_assoc s t u, SumStat.merge_comm s t, SumStat.zero_merge s,
    by rw [SumStat.merge_comm]; exact SumStat.zero_merge s⟩

/-- the documented domain is closed under `new` (for arbitrary inputs), `merge` and `reduce`
(for arbitrary, even invalid, arguments), and contains `zero` -/
theorem C05_valid_closed (a w : Rat) (s t : MeanStat) (l : List MeanStat) :
    (MeanStat.new a w).Valid ∧ (s.merge t).Valid ∧ (MeanStat.reduce l).Valid ∧ MeanStat.zero.Valid :=
  ⟨MeanStat.new_valid a w, MeanStat.merge_valid s t, MeanStat.reduce_valid l, MeanStat.zero_valid⟩

/-- why `new` exists: outside the documented domain `merge` is not associative -/
theorem C05_nonvalid_not_assoc :
    ∃ s t u : MeanStat, (s.merge t).merge u ≠ s.merge (t.merge u) := by
  refine ⟨⟨5, -1⟩, ⟨1, 1⟩, ⟨1, 1⟩, ?_⟩
  have h1 : MeanStat.merge ⟨5, -1⟩ ⟨1, 1⟩ = ⟨0, 0⟩ := MeanStat.new_of_nonpos (by norm_num)
  have h2 : MeanStat.merge ⟨1, 1⟩ ⟨1, 1⟩ = ⟨2, 2⟩ := by
    have := MeanStat.new_of_pos (a := 1 + 1) (w := 1 + 1) (by norm_num)
    simpa [MeanStat.merge] using (by norm_num at this ⊢; exact this)
  rw [h1, h2]
  have h3 : MeanStat.merge ⟨0, 0⟩ ⟨1, 1⟩ = ⟨1, 1⟩ := by
    have := MeanStat.new_of_pos (a := 0 + 1) (w := 0 + 1) (by norm_num)
    simpa [MeanStat.merge] using this
  have h4 : MeanStat.merge ⟨5, -1⟩ ⟨2, 2⟩ = ⟨7, 1⟩ := by
    have := MeanStat.new_of_pos (a := 5 + 2) (w := -1 + 2) (by norm_num)
    simp only [MeanStat.merge]
    rw [this]; norm_num
  rw [h3, h4]
  intro h
  have := congrArg MeanStat.accum h
  norm_num at this

/-- `result` never divides by zero: a valid statistic is `zero` with result `0`, or has positive
weight and `result · weight = accum` -/
theorem C05_result_total (s : MeanStat) (h : s.Valid) :
    (s = MeanStat.zero ∧ s.result = 0) ∨ (0 < s.weight ∧ s.result * s.weight = s.accum) :=
  MeanStat.result_valid h

/-! ## reduce is the fold of merge -/

/-- `reduce` of valid statistics = left fold of `merge` from `zero` (any lawful statistic) -/
theorem C05_reduce_fold {σ : Type} {o : StatOps σ} {V : σ → Prop} (h : Lawful o V)
    (l : List σ) (hl : ∀ x ∈ l, V x) : o.reduce l = l.foldl o.merge o.zero :=
  h.reduce_eq_mergeAll hl

theorem C05_reduce_fold_mean (l : List MeanStat) (hl : ∀ x ∈ l, x.Valid) :
    MeanStat.reduce l = l.foldl MeanStat.merge MeanStat.zero :=
  C05_reduce_fold meanLawful l hl

/-! ## masking -/

/-- `evaluate_batch` only looks at the unmasked rows: replacing the content of masked rows by
anything of the example type (and `f` may even be undefined/invalid there) leaves the batch
statistic unchanged.  No assumption on the statistic. -/
theorem C05_mask {σ ε : Type} (o : StatOps σ) (f : ε → σ) (rows rows' : List ε) (mask : List Bool)
    (hlen : rows.length = rows'.length)
    (hsame : ∀ i (h : i < rows.length) (h' : i < rows'.length), mask[i]? = some true → rows[i] = rows'[i]) :
    evalBatch o f rows (some mask) = evalBatch o f rows' (some mask) := by
  show o.reduce (maskRows o f rows mask) = o.reduce (maskRows o f rows' mask)
  congr 1
  apply List.ext_getElem
  · simp [maskRows, hlen]
  · intro i h1 h2
    simp only [maskRows, List.length_zipWith] at h1 h2
    simp only [maskRows, List.getElem_zipWith]
    by_cases hb : mask[i] = true
    · have := hsame i (by omega) (by omega) (by rw [List.getElem?_eq_getElem (by omega), hb])
      simp [hb, this]
    · simp [hb]

/-- a batch without a mask feature is evaluated with an all-true mask: all its rows are real -/
theorem C05_default_mask {ε : Type} (rows : List ε) : batchReal (rows, none) = rows := by
  simp only [batchReal, batchMask, Option.getD_none, unmasked]
  induction rows with
  | nil => rfl
  | cons a l ih => simpa [List.replicate_succ] using ih

/-! ## partition / order / padding invariance -/

/-- **Main theorem.**  For any lawful statistic, any per-example function `f`, any list of batches
(any sizes, any masks — not only prefix masks —, arbitrary content in masked rows, with or without
a mask feature) whose real rows are, in some order, the examples `examples`:
`evaluate_model` returns the merge of the single-example statistics one by one. -/
theorem C05_partition_invariant {σ ε : Type} {o : StatOps σ} {V : σ → Prop} (h : Lawful o V)
    (f : ε → σ) (batches : List (List ε × Option (List Bool))) (examples : List ε)
    (hperm : (batches.flatMap batchReal).Perm examples)
    (hv : ∀ e ∈ examples, V (f e)) :
    evalModel o f batches = examples.foldl (fun s e => o.merge s (f e)) o.zero := by
  have hv' : ∀ b ∈ batches, ∀ e ∈ batchReal b, V (f e) := by
    intro b hb e he
    exact hv e (hperm.mem_iff.mp (List.mem_flatMap.mpr ⟨b, hb, he⟩))
  have h1 := evalModel_aux h f batches hv' h.zero_valid
  have h2 : ∀ x ∈ (batches.flatMap batchReal).map f, V x := by
    intro x hx
    obtain ⟨e, he, rfl⟩ := List.mem_map.mp hx
    exact hv e (hperm.mem_iff.mp he)
  show batches.foldl (evalStep o f) o.zero = _
  rw [h1, h.mergeAll_perm (hperm.map f) h.zero_valid h2]
  simp [mergeAll, List.foldl_map]

/-- two evaluations of the same examples — different partitions, orders, paddings — agree -/
theorem C05_two_partitions {σ ε : Type} {o : StatOps σ} {V : σ → Prop} (h : Lawful o V)
    (f : ε → σ) (b₁ b₂ : List (List ε × Option (List Bool)))
    (hperm : (b₁.flatMap batchReal).Perm (b₂.flatMap batchReal))
    (hv : ∀ e ∈ b₂.flatMap batchReal, V (f e)) :
    evalModel o f b₁ = evalModel o f b₂ := by
  rw [C05_partition_invariant h f b₁ _ hperm hv,
    C05_partition_invariant h f b₂ _ (List.Perm.refl _) hv]

/-- no real rows (no batches, or only fully masked batches) ⇒ the zero statistic -/
theorem C05_empty {σ ε : Type} {o : StatOps σ} {V : σ → Prop} (h : Lawful o V)
    (f : ε → σ) (batches : List (List ε × Option (List Bool)))
    (hnone : ∀ b ∈ batches, batchReal b = []) : evalModel o f batches = o.zero := by
  have : batches.flatMap batchReal = [] := by
    rw [List.flatMap_eq_nil_iff]; exact hnone
  rw [C05_partition_invariant h f batches [] (by rw [this]) (by simp)]
  rfl

/-- … whose result is `0` in every entry (never NaN) -/
theorem C05_empty_result (n : Nat) :
    ((vecOps n meanOps).zero.map MeanStat.result = List.replicate n 0) ∧
    ((vecOps n sumOps).zero.map SumStat.result = List.replicate n 0) := by
  constructor
  · show (List.replicate n MeanStat.zero).map MeanStat.result = _
    simp [MeanStat.result_zero]
  · show (List.replicate n SumStat.zero).map SumStat.result = _
    simp [SumStat.result, SumStat.zero, SumStat.new]

/-! ## the built-in metrics -/

/-- every mean-valued built-in metric (incl. per-position and `PerDomainMetric` variants) on
sequences of `len` positions -/
theorem C05_builtin_mean (m : MeanMetric) (len : Nat)
    (batches : List (List Ex × Option (List Bool))) (examples : List Ex)
    (hperm : (batches.flatMap batchReal).Perm examples)
    (hshape : ∀ e ∈ examples, e.WellShaped len) :
    evalModel (vecOps (m.size len) meanOps) m.eval batches
      = examples.foldl (fun s e => (vecOps (m.size len) meanOps).merge s (m.eval e))
          (vecOps (m.size len) meanOps).zero :=
  C05_partition_invariant (vecLawful _ meanLawful) m.eval batches examples hperm
    fun e he => m.eval_vecValid len e (hshape e he)

/-- every sum-valued built-in metric (token/sequence counts, `ConfusionMatrix`, `PerDomainMetric`
over them) -/
theorem C05_builtin_sum (m : SumMetric)
    (batches : List (List Ex × Option (List Bool))) (examples : List Ex)
    (hperm : (batches.flatMap batchReal).Perm examples) :
    evalModel (vecOps m.size sumOps) m.eval batches
      = examples.foldl (fun s e => (vecOps m.size sumOps).merge s (m.eval e)) (vecOps m.size sumOps).zero :=
  C05_partition_invariant (vecLawful _ sumLawful) m.eval batches examples hperm
    fun e _ => m.eval_vecValid e


/-! ## composition with C03: evaluating over `padded_batch` is independent of the batch geometry -/

/-- **Padded evaluation.** For every lawful statistic, every per-example statistic `f`, every
dataset `xs`, every batch size `bs ≥ 1`, bucket count `B ≥ 1` and padding row `z` (whatever `f z`
is): evaluating over the padded batches that `ClientDataset.padded_batch(bs, B)` yields (C03's
`paddedView`) is the one-by-one merge of the single-example statistics of `xs` — in particular the
same for every `(bs, B)`. -/
theorem C05_padded_batch_eval {σ ε : Type} {o : StatOps σ} {V : σ → Prop} (h : Lawful o V)
    (f : ε → σ) (bs B : Nat) (hbs : 0 < bs) (hB : 0 < B) (z : ε) (xs : List ε)
    (hv : ∀ e ∈ xs, V (f e)) :
    ∃ v, Batching.paddedView bs B z xs = some v ∧
      evalModel o f (v.map fun b => (b.1, some b.2)) = xs.foldl (fun s e => o.merge s (f e)) o.zero := by
  obtain ⟨v, hv1, hv2⟩ := Batching.C03_padded_unpad bs B hbs hB z xs
  refine ⟨v, hv1, ?_⟩
  apply C05_partition_invariant h f _ xs _ hv
  have : (v.map fun b => ((b.1, some b.2) : List ε × Option (List Bool))).flatMap batchReal
      = Batching.unpad v := by
    unfold Batching.unpad
    rw [List.flatMap_map]
    rfl
  rw [this, hv2]


/-- **Centralised evaluation.** Evaluating over the single padded stream that
`padded_batch_client_datasets` builds from many client datasets (C15's `multiBatch`: batches span
client boundaries, only the last one is padded) is the one-by-one merge over all examples of all
clients — the same as evaluating the concatenated dataset, for every `(bs, B)` and every mix of
client sizes, including empty clients. -/
theorem C05_multi_client_eval {σ ε : Type} {o : StatOps σ} {V : σ → Prop} (h : Lawful o V)
    (f : ε → σ) (bs B : Nat) (hbs : 0 < bs) (hB : 0 < B) (z : ε) (dsets : List (List ε))
    (hv : ∀ e ∈ dsets.flatten, V (f e)) :
    ∃ v, Centralised.multiBatch bs B z dsets = some v ∧
      evalModel o f (v.map fun b => (b.1, some b.2))
        = dsets.flatten.foldl (fun s e => o.merge s (f e)) o.zero := by
  obtain ⟨v, hv1, hv2⟩ := Centralised.C15_multi_concat bs B hbs hB z dsets
  refine ⟨v, hv1, ?_⟩
  apply C05_partition_invariant h f _ dsets.flatten _ hv
  have : (v.map fun b => ((b.1, some b.2) : List ε × Option (List Bool))).flatMap batchReal
      = Batching.unpad v := by
    unfold Batching.unpad
    rw [List.flatMap_map]
    rfl
  rw [this, hv2]

/-! ## non-vacuity -/

example : MeanStat.Valid ⟨3, 2⟩ ∧ MeanStat.Valid ⟨0, 0⟩ ∧ ¬ MeanStat.Valid ⟨5, -1⟩ := by
  refine ⟨Or.inr (by norm_num), Or.inl ⟨rfl, rfl⟩, ?_⟩
  rintro (⟨h, _⟩ | h)
  · norm_num at h
  · norm_num at h

example : MeanStat.new 3 (-2) = ⟨0, 0⟩ ∧ MeanStat.new 3 2 = ⟨3, 2⟩ :=
  ⟨MeanStat.new_of_nonpos (by norm_num), MeanStat.new_of_pos (by norm_num)⟩

/-- two batches (one padded with junk, one without a mask) of three examples -/
example : batchReal ([10, 99, 20], some [true, false, true]) = [10, 20] ∧
    batchReal ([30], (none : Option (List Bool))) = [30] ∧
    ([([10, 99, 20], some [true, false, true]), ([30], none)].flatMap batchReal).Perm [30, 10, 20] := by
  refine ⟨by decide, by decide, ?_⟩
  decide

example : (Ex.mk [1, 2] [[0, 1, 0], [0, 0, 1]] [[0, 0, 0], [0, 0, 0]] 0).WellShaped 2 := ⟨rfl, rfl, rfl⟩


-- the docstring examples of MeanStat: merge (1,2) (2,3) = (3,5) => 0.6
example : MeanStat.merge ⟨1, 2⟩ ⟨2, 3⟩ = ⟨3, 5⟩ := by
  rw [MeanStat.merge_eq_add (Or.inr (by norm_num)) (Or.inr (by norm_num))]; norm_num

example : (⟨3, 5⟩ : MeanStat).result = 3 / 5 := by simp [MeanStat.result]

example : MeanStat.zero.result = 0 := MeanStat.result_zero

example : VecValid 2 MeanStat.Valid [⟨1, 1⟩, ⟨0, 0⟩] := by
  refine ⟨rfl, ?_⟩
  intro x hx
  simp only [List.mem_cons, List.not_mem_nil, or_false] at hx
  rcases hx with rfl | rfl
  · exact Or.inr (by norm_num)
  · exact Or.inl ⟨rfl, rfl⟩

-- C05_mask: the masked middle row may hold anything
example (f : Nat → SumStat) :
    evalBatch sumOps f [1, 2, 3] (some [true, false, true]) = evalBatch sumOps f [1, 9, 3] (some [true, false, true]) :=
  C05_mask sumOps f _ _ _ rfl (by
    intro i h h' hm
    match i, h, h', hm with
    | 0, _, _, _ => rfl
    | 1, _, _, hm => simp at hm
    | 2, _, _, _ => rfl)

-- C05_partition_invariant on two batches (junk in the masked row, second batch without a mask feature)
example (f : Nat → SumStat) :
    evalModel sumOps f [([10, 99, 20], some [true, false, true]), ([30], none)]
      = [30, 10, 20].foldl (fun s e => sumOps.merge s (f e)) sumOps.zero :=
  C05_partition_invariant sumLawful f _ _ (by decide) (by simp)

-- C05_empty: a fully masked batch
example : batchReal ([5, 6], some [false, false]) = [] := by decide
example (f : Nat → MeanStat) : evalModel meanOps f [([5, 6], some [false, false])] = MeanStat.zero :=
  C05_empty meanLawful f _ (by decide)

-- every built-in metric yields a valid statistic of the documented size
example : ((MeanMetric.perDomain (.seqTokenAcc [0] none true) 2).size 3) = 6 := rfl
example : (SumMetric.perDomain (.confusion 3) 2).size = 18 := rfl

-- docstring example of reduce: new([1,2,4],[1,1,0]).reduce() = (3,2) => 1.5
example : MeanStat.reduce [MeanStat.new 1 1, MeanStat.new 2 1, MeanStat.new 4 0] = ⟨3, 2⟩ := by
  rw [MeanStat.new_of_pos (by norm_num), MeanStat.new_of_pos (by norm_num), MeanStat.new_of_nonpos (le_refl 0)]
  have : MeanStat.new (1 + (2 + (0 + 0))) (1 + (1 + (0 + 0))) = ⟨1 + (2 + (0 + 0)), 1 + (1 + (0 + 0))⟩ :=
    MeanStat.new_of_pos (by norm_num)
  simp only [MeanStat.reduce, List.map_cons, List.map_nil, List.sum_cons, List.sum_nil, this]
  norm_num

example : batchMask (([1, 2] : List Nat), none) = [true, true] := rfl

end FedjaxVerif.Stats
