import FedjaxVerif.Model.Proto
import FedjaxVerif.Handlers.C17
import FedjaxVerif.Handlers.C12
import FedjaxVerif.Handlers.C11
import FedjaxVerif.Handlers.C20
import FedjaxVerif.Handlers.C14
import FedjaxVerif.Handlers.C05
import FedjaxVerif.Handlers.C10
import FedjaxVerif.Handlers.C07
import FedjaxVerif.Handlers.C06
import FedjaxVerif.Handlers.C19
import FedjaxVerif.Handlers.C09
import FedjaxVerif.Handlers.C18
import FedjaxVerif.Handlers.C08
import FedjaxVerif.Handlers.C13
import FedjaxVerif.Handlers.C16
import FedjaxVerif.Handlers.C15
import FedjaxVerif.Handlers.C04
import FedjaxVerif.Handlers.C03
import FedjaxVerif.Handlers.C02
import FedjaxVerif.Handlers.C01

open FedjaxVerif

def handlers : List (String → List Val → Option Val) :=
  [Handlers.C03.handle, Handlers.C02.handle, Handlers.C01.handle, Handlers.C04.handle, Handlers.C15.handle, Handlers.C16.handle, Handlers.C13.handle, Handlers.C08.handle, Handlers.C18.handle, Handlers.C09.handle, Handlers.C19.handle, Handlers.C06.handle, Handlers.C07.handle, Handlers.C10.handle, Handlers.C05.handle, Handlers.C14.handle, Handlers.C20.handle, Handlers.C11.handle, Handlers.C12.handle, Handlers.C17.handle]

def answer (line : String) : String :=
  match parseLine line with
  | none => "bad-line"
  | some (op, args) =>
    match handlers.findSome? (fun h => h op args) with
    | some v => "ok " ++ v.render
    | none => "bad-op"

partial def loop (h : IO.FS.Stream) (out : IO.FS.Stream) : IO Unit := do
  let line ← h.getLine
  if line.isEmpty then return ()
  let l := (line.dropEndWhile (fun c => c == '\n' || c == '\r')).toString
  out.putStrLn (answer l)
  out.flush
  loop h out

def main : IO Unit := do
  let out ← IO.getStdout
  loop (← IO.getStdin) out
  out.flush
